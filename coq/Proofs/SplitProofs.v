(* Lemmas for C08: segmentation is lossless and every segment fits. *)
From Coq Require Import ZArith List Bool Lia Arith ZifyBool.
Import ListNotations.
Require Import AV.Generated.GsmTables AV.Generated.ExnOrder AV.Generated.SmppConsts
               AV.Model.Base AV.Model.Codec AV.Model.Split AV.Proofs.CodecProofs AV.Proofs.ChunkProofs.
Open Scope Z_scope.
Ltac Zify.zify_post_hook ::= Z.to_euclidean_division_equations.

(* decode every segment on its own and concatenate, as a receiver does *)
Fixpoint decode_each (dec : list Z -> res (list Z)) (chunks : list (list Z)) : res (list Z) :=
  match chunks with
  | [] => Ok []
  | c :: t => do x <- dec c; do y <- decode_each dec t; Ok (x ++ y)
  end.

(* =========================== GSM =========================== *)

Definition mark_esc (x : Z) : bool := x =? ESCAPE.

Lemma gsm_guard_is_guard_last : gsm_guard = guard_last mark_esc.
Proof. reflexivity. Qed.

Lemma escape_facts : QUESTION_MARK <> ESCAPE
  /\ forallb (fun p => negb (snd p =? ESCAPE)) gsm_replace_encode_map = true.
Proof. split; [vm_compute; discriminate|vm_compute; reflexivity]. Qed.

Lemma sub_char_not_escape c : sub_char c <> ESCAPE.
Proof.
  unfold sub_char. destruct escape_facts as [Hq Ht].
  destruct (lookup c gsm_replace_encode_map) as [r|] eqn:E; [|exact Hq].
  apply lookup_In in E. pose proof (forallb_In _ _ _ Ht E) as H. cbn [snd] in H.
  apply negb_true_iff, Z.eqb_neq in H. exact H.
Qed.

Lemma codes_marks m s codes :
  to_gsm_codes m s = Some codes -> no_adj mark_esc codes = true /\ ends_ok mark_esc codes.
Proof.
  revert codes. induction s as [|c s IH]; cbn [to_gsm_codes]; intros codes H.
  - injection H as <-. split; [reflexivity|left; reflexivity].
  - assert (forall x r, x <> ESCAPE -> no_adj mark_esc r = true /\ ends_ok mark_esc r ->
                        no_adj mark_esc (x :: r) = true /\ ends_ok mark_esc (x :: r)) as Hcons.
    { intros x r Hx [Hn He]. apply Z.eqb_neq in Hx. split.
      - destruct r as [|y r']; [reflexivity|]. cbn [no_adj]. unfold mark_esc at 1. rewrite Hx. cbn [andb negb]. exact Hn.
      - right. destruct r as [|y r']; [cbn [last]; exact Hx|].
        change (last (x :: y :: r') 0) with (last (y :: r') 0). destruct He as [He|He]; [discriminate|exact He]. }
    destruct (lookup c gsm_basic_encode_map) as [code|] eqn:E1.
    + destruct (to_gsm_codes m s) as [r|]; [|discriminate]. injection H as <-.
      apply Hcons; [apply (basic_enc_sound _ _ E1)|auto].
    + destruct (lookup c gsm_extended_encode_map) as [code|] eqn:E2.
      * destruct (to_gsm_codes m s) as [r|]; [|discriminate]. injection H as <-.
        destruct (ext_enc_sound _ _ E2) as [Hne _].
        destruct (Hcons code r Hne (IH r eq_refl)) as [Hn He].
        split.
        -- cbn [no_adj]. unfold mark_esc at 2. apply Z.eqb_neq in Hne. rewrite Hne, andb_false_r. exact Hn.
        -- right. change (last (ESCAPE :: code :: r) 0) with (last (code :: r) 0).
           destruct He as [He|He]; [discriminate|exact He].
      * destruct m; [discriminate| |auto].
        destruct (to_gsm_codes Replace s) as [r|]; [|discriminate]. injection H as <-.
        apply Hcons; [apply sub_char_not_escape|auto].
Qed.

Definition final_esc (a : list Z) (e : bool) : bool := match a with [] => e | _ => last a 0 =? ESCAPE end.

Lemma strict_decode_app b : forall a e, final_esc a e = false ->
  gsm_decode_loop Strict (a ++ b) e =
  (do x <- gsm_decode_loop Strict a e; do y <- gsm_decode_loop Strict b false; Ok (x ++ y)).
Proof.
  induction a as [|x t IH]; intros e He.
  - cbn in He. subst e. cbn [app gsm_decode_loop rbind].
    destruct (gsm_decode_loop Strict b false); reflexivity.
  - cbn [app gsm_decode_loop]. unfold decode_char.
    (* whatever follows, the state after x is "escaped" only if x is an escape code read in the unescaped state; the last octet of the
       chunk is no escape code, so the chunk never ends in that state *)
    assert (forall e', (t = [] -> e' = false) -> final_esc t e' = false) as Hnext.
    { intros e' Hnil. destruct t as [|y t']; [cbn; apply Hnil; reflexivity|exact He]. }
    destruct e.
    + (* escaped: x is read through the extension table (or gives the placeholder), the state is unescaped afterwards *)
      cbv iota. rewrite (IH false (Hnext false (fun _ => eq_refl))).
      destruct (gsm_decode_loop Strict t false) as [r|]; cbn [rmap rbind]; [|reflexivity].
      destruct (gsm_decode_loop Strict b false); reflexivity.
    + destruct (Z.eqb_spec x ESCAPE) as [Ex|Ex].
      * cbv iota. apply IH. apply Hnext. intros ->. cbn in He. rewrite Ex, Z.eqb_refl in He. discriminate.
      * destruct (lookup x gsm_basic_decode_map); [|reflexivity]. rewrite (IH false (Hnext false (fun _ => eq_refl))).
        destruct (gsm_decode_loop Strict t false) as [r|]; cbn [rmap rbind]; [|reflexivity].
        destruct (gsm_decode_loop Strict b false); reflexivity.
Qed.

Lemma gsm_decode_each chunks :
  Forall (fun c => mark_esc (last c 0) = false) chunks ->
  Forall (fun c => c <> []) chunks ->
  decode_each (gsm_decode Strict) chunks = gsm_decode Strict (concat chunks).
Proof.
  induction chunks as [|c t IH]; intros Hm Hne; [reflexivity|].
  inversion_clear Hm as [|? ? Hc Hm']. inversion_clear Hne as [|? ? Hcn Hne'].
  cbn [decode_each concat]. change (gsm_decode Strict (c ++ concat t)) with (gsm_decode_loop Strict (c ++ concat t) false).
  rewrite strict_decode_app.
  - fold (gsm_decode Strict c). fold (gsm_decode Strict (concat t)). rewrite IH by assumption. reflexivity.
  - destruct c; [congruence|exact Hc].
Qed.

(* =========================== UCS2 =========================== *)

Definition unit16 (u : Z) : Prop := 0 <= u < 65536.

Lemma Some_inj {A} (a b : A) : Some a = Some b -> a = b.
Proof. intros H. injection H as H. exact H. Qed.

Lemma utf16_units_facts s us :
  utf16_units s = Some us ->
  Forall unit16 us /\ no_adj is_high us = true /\ ends_ok is_high us /\ units_decode us = Some s.
Proof.
  revert us. induction s as [|c s IH]; cbn [utf16_units]; intros us H.
  - injection H as <-. repeat split; [constructor|left; reflexivity].
  - destruct ((c <? 0) || (1114111 <? c)) eqn:Er; [discriminate|].
    apply orb_false_iff in Er as [Er1 Er2]. apply Z.ltb_ge in Er1, Er2.
    destruct (is_high c || is_low c) eqn:Es; [discriminate|].
    apply orb_false_iff in Es as [Eh El].
    destruct (Z.ltb_spec c 65536) as [Hb|Hb].
    + destruct (utf16_units s) as [r|]; [|discriminate]. cbn [option_map] in H. apply Some_inj in H. subst us.
      destruct (IH r eq_refl) as (Hu & Hn & He & Hd).
      split; [constructor; [unfold unit16; lia|exact Hu]|]. split; [|split].
      * destruct r as [|y r']; [reflexivity|]. cbn [no_adj]. rewrite Eh. cbn [andb negb]. exact Hn.
      * right. destruct r as [|y r']; [cbn [last]; exact Eh|].
        change (last (c :: y :: r') 0) with (last (y :: r') 0). destruct He as [He|He]; [discriminate|exact He].
      * cbn [units_decode]. rewrite Eh, El, Hd. reflexivity.
    + destruct (utf16_units s) as [r|]; [|discriminate]. cbn [option_map] in H.
      set (v := c - 65536) in *. apply Some_inj in H. subst us.
      destruct (IH r eq_refl) as (Hu & Hn & He & Hd).
      assert (is_high (55296 + v / 1024) = true) as Hhi by (unfold is_high, v; lia).
      assert (is_low (56320 + v mod 1024) = true) as Hlo by (unfold is_low; lia).
      assert (is_high (56320 + v mod 1024) = false) as Hlonh by (unfold is_high; lia).
      split; [constructor; [unfold unit16, v; lia|constructor; [unfold unit16; lia|exact Hu]]|].
      split; [|split].
      * cbn [no_adj]. rewrite Hlonh, andb_false_r. cbn [negb andb].
        destruct r as [|y r']; [reflexivity|exact Hn].
      * right. change (last ((55296 + v / 1024) :: (56320 + v mod 1024) :: r) 0) with (last ((56320 + v mod 1024) :: r) 0).
        destruct r as [|y r']; [cbn [last]; exact Hlonh|].
        change (last ((56320 + v mod 1024) :: y :: r') 0) with (last (y :: r') 0).
        destruct He as [He|He]; [discriminate|exact He].
      * cbn [units_decode]. rewrite Hhi, Hlo, Hd. cbn [option_map]. do 2 f_equal. unfold v. lia.
Qed.

Lemma units_of_bytes_of_units us : Forall unit16 us -> units_of_bytes (bytes_of_units us) = Some us.
Proof.
  induction us as [|u t IH]; intros H; [reflexivity|]. inversion_clear H as [|? ? Hu Ht].
  change (bytes_of_units (u :: t)) with (u / 256 :: u mod 256 :: bytes_of_units t).
  cbn [units_of_bytes]. rewrite (IH Ht). cbn [option_map]. do 2 f_equal. unfold unit16 in Hu. lia.
Qed.

Lemma bytes_of_units_length us : length (bytes_of_units us) = (2 * length us)%nat.
Proof.
  induction us as [|u t IH]; [reflexivity|].
  change (bytes_of_units (u :: t)) with (u / 256 :: u mod 256 :: bytes_of_units t).
  cbn [length]. rewrite IH. lia.
Qed.

Lemma bytes_of_units_app a b : bytes_of_units (a ++ b) = bytes_of_units a ++ bytes_of_units b.
Proof. unfold bytes_of_units. apply flat_map_app. Qed.

Lemma firstn_bytes n : forall us, firstn (2 * n) (bytes_of_units us) = bytes_of_units (firstn n us).
Proof.
  induction n as [|n IH]; intros us; [reflexivity|].
  destruct us as [|u t]; [reflexivity|].
  replace (2 * S n)%nat with (S (S (2 * n))) by lia.
  change (bytes_of_units (u :: t)) with (u / 256 :: u mod 256 :: bytes_of_units t).
  cbn [firstn]. change (bytes_of_units (u :: firstn n t)) with (u / 256 :: u mod 256 :: bytes_of_units (firstn n t)).
  rewrite IH. reflexivity.
Qed.

Lemma skipn_bytes n : forall us, skipn (2 * n) (bytes_of_units us) = bytes_of_units (skipn n us).
Proof.
  induction n as [|n IH]; intros us; [reflexivity|].
  destruct us as [|u t]; [reflexivity|].
  replace (2 * S n)%nat with (S (S (2 * n))) by lia.
  change (bytes_of_units (u :: t)) with (u / 256 :: u mod 256 :: bytes_of_units t).
  cbn [skipn]. apply IH.
Qed.

Lemma nth_bytes_hi n : forall us, (n < length us)%nat -> nth (2 * n) (bytes_of_units us) 0 = nth n us 0 / 256.
Proof.
  induction n as [|n IH]; intros us H; (destruct us as [|u t]; [cbn in H; lia|]).
  - reflexivity.
  - replace (2 * S n)%nat with (S (S (2 * n))) by lia.
    change (bytes_of_units (u :: t)) with (u / 256 :: u mod 256 :: bytes_of_units t).
    cbn [nth]. apply IH. cbn [length] in H. lia.
Qed.

(* the byte-level loop on UTF-16BE text is the unit-level loop, octet for octet *)
Lemma ucs2_chunks_units h f : (2 <= h)%nat -> forall us, Forall unit16 us -> (length us < f)%nat ->
  chunk_loop (S (2 * f)) (2 * h) 2 ucs2_guard (bytes_of_units us)
  = map bytes_of_units (chunk_loop f h 1 (guard_last is_high) us).
Proof.
  intros Hh. induction f as [|f IH]; intros us Hu Hf; [lia|].
  destruct us as [|u0 t0] eqn:E; [reflexivity|]. rewrite <- E in *.
  assert (us <> []) as Hne by (rewrite E; discriminate).
  assert (bytes_of_units us <> []) as Hbne by (rewrite E; discriminate).
  replace (S (2 * S f)) with (S (S (S (2 * f)))) by lia.
  rewrite (chunk_loop_unfold (2 * h) 2 ucs2_guard _ _ Hbne).
  rewrite (chunk_loop_unfold h 1 (guard_last is_high) f us Hne). cbn [map].
  assert (cut (2 * h) 2 ucs2_guard (bytes_of_units us) = (2 * cut h 1 (guard_last is_high) us)%nat) as Ecut.
  { unfold cut. rewrite bytes_of_units_length.
    replace (Nat.min (2 * h) (2 * length us)) with (2 * Nat.min h (length us))%nat by lia.
    destruct (Nat.eqb_spec (Nat.min h (length us)) h) as [Em|Em].
    - replace (Nat.eqb (2 * Nat.min h (length us)) (2 * h)) with true by (symmetry; apply Nat.eqb_eq; lia).
      cbn [andb].
      assert (ucs2_guard (firstn (2 * h) (bytes_of_units us)) = guard_last is_high (firstn h us)) as ->.
      { unfold ucs2_guard, guard_last. rewrite firstn_bytes, bytes_of_units_length, firstn_length.
        replace (Nat.min h (length us)) with h by lia.
        replace (2 * h - 2)%nat with (2 * (h - 1))%nat by lia.
        rewrite nth_bytes_hi by (rewrite firstn_length; lia).
        rewrite (last_firstn h us) by lia.
        rewrite nth_firstn_lt by lia.
        assert (unit16 (nth (h - 1) us 0)) as Hn.
        { rewrite Forall_forall in Hu. apply Hu. apply nth_In. lia. }
        unfold is_high, unit16 in *. lia. }
      destruct (guard_last is_high (firstn h us)); lia.
    - replace (Nat.eqb (2 * Nat.min h (length us)) (2 * h)) with false by (symmetry; apply Nat.eqb_neq; lia).
      reflexivity. }
  rewrite Ecut, firstn_bytes, skipn_bytes. f_equal.
  pose proof (cut_bounds h 1 (guard_last is_high) ltac:(lia) us Hne) as Hc.
  rewrite (chunk_fuel (2 * h) 2 ucs2_guard ltac:(lia) (S (S (2 * f))) (S (2 * f))).
  - apply IH.
    + rewrite Forall_forall in *. intros x Hx. apply Hu. eapply In_skipn'. exact Hx.
    + rewrite skipn_length. lia.
  - rewrite bytes_of_units_length, skipn_length. lia.
  - rewrite bytes_of_units_length, skipn_length. lia.
Qed.

Lemma units_decode_app b : forall n a, (length a <= n)%nat ->
  (a = [] \/ is_high (last a 0) = false) ->
  units_decode (a ++ b) =
  match units_decode a, units_decode b with Some x, Some y => Some (x ++ y) | _, _ => None end.
Proof.
  induction n as [|n IH]; intros a Hlen Hend.
  - destruct a; [|cbn in Hlen; lia]. cbn [app units_decode]. destruct (units_decode b); reflexivity.
  - destruct a as [|u t]; [cbn [app units_decode]; destruct (units_decode b); reflexivity|].
    cbn [length] in Hlen. cbn [app units_decode].
    destruct (is_high u) eqn:Eh.
    + destruct t as [|l t'].
      * destruct Hend as [Hend|Hend]; [discriminate|]. cbn [last] in Hend. congruence.
      * cbn [app]. destruct (is_low l); [|reflexivity].
        cbn [length] in Hlen.
        assert (t' = [] \/ is_high (last t' 0) = false) as Hend'
          by (destruct t' as [|z t'']; [left; reflexivity|right; destruct Hend as [Hend|Hend]; [discriminate|exact Hend]]).
        rewrite (IH t' ltac:(lia) Hend').
        destruct (units_decode t'), (units_decode b); reflexivity.
    + destruct (is_low u); [reflexivity|].
      assert (t = [] \/ is_high (last t 0) = false) as Hend'
        by (destruct t as [|z t'']; [left; reflexivity|right; destruct Hend as [Hend|Hend]; [discriminate|exact Hend]]).
      rewrite (IH t ltac:(lia) Hend').
      destruct (units_decode t), (units_decode b); reflexivity.
Qed.

Lemma ucs2_decode_units us : Forall unit16 us ->
  ucs2_decode (bytes_of_units us) = match units_decode us with Some s => Ok s | None => Err EXN_UnicodeDecodeError end.
Proof. intros H. unfold ucs2_decode. rewrite (units_of_bytes_of_units us H). reflexivity. Qed.

Lemma Forall_concat {A} (P : A -> Prop) (ls : list (list A)) : Forall P (concat ls) -> Forall (Forall P) ls.
Proof.
  induction ls as [|l t IH]; intros H; [constructor|]. cbn [concat] in H. apply Forall_app in H as [H1 H2].
  constructor; auto.
Qed.

Lemma ucs2_decode_each uchunks : forall s,
  Forall (Forall unit16) uchunks ->
  Forall (fun c => is_high (last c 0) = false) uchunks ->
  units_decode (concat uchunks) = Some s ->
  decode_each ucs2_decode (map bytes_of_units uchunks) = Ok s.
Proof.
  induction uchunks as [|c t IH]; intros s Hu Hm Hd.
  - cbn in Hd. injection Hd as <-. reflexivity.
  - inversion_clear Hu as [|? ? Huc Hut]. inversion_clear Hm as [|? ? Hmc Hmt].
    cbn [concat] in Hd. rewrite (units_decode_app _ (length c) c (le_n _) (or_intror Hmc)) in Hd.
    cbn [map decode_each]. rewrite (ucs2_decode_units c Huc).
    destruct (units_decode c) as [x|]; [|discriminate].
    destruct (units_decode (concat t)) as [y|] eqn:Ey; [|discriminate].
    injection Hd as <-. cbn [rbind]. rewrite (IH y Hut Hmt eq_refl). reflexivity.
Qed.

(* ---------- the two splitting loops on real texts ---------- *)

Lemma gsm_encode_strict_codes text codes :
  gsm_encode Strict text = Ok codes ->
  to_gsm_codes Strict text = Some codes /\ is_gsm_text text = true /\ gsm_decode Strict codes = Ok text
  /\ Forall (fun x => 0 <= x < 128) codes.
Proof.
  unfold gsm_encode. destruct (to_gsm_codes Strict text) as [cs|] eqn:E; [|discriminate].
  pose proof (codes_are_septets _ _ _ E) as Hsep. rewrite (pack_B_septets _ Hsep).
  intros H. injection H as <-.
  assert (is_gsm_text text = true) as Hg by (apply strict_succeeds_iff; eauto).
  repeat split; auto. apply (roundtrip_codes Strict text cs Hg E Strict).
Qed.

Theorem gsm_parts text codes L :
  gsm_encode Strict text = Ok codes -> (2 <= L)%nat ->
  let chunks := gsm_chunks L codes in
  concat chunks = codes
  /\ Forall (fun c => (1 <= length c <= L)%nat) chunks
  /\ Forall (fun c => last c 0 <> ESCAPE) chunks
  /\ decode_each (gsm_decode Strict) chunks = Ok text
  /\ (length chunks <= length codes)%nat.
Proof.
  intros He HL chunks. destruct (gsm_encode_strict_codes _ _ He) as (Hc & Hg & Hd & Hsep).
  destruct (codes_marks _ _ _ Hc) as [Hna Hend].
  assert (1 < L)%nat as HkL by lia.
  unfold chunks, gsm_chunks. rewrite gsm_guard_is_guard_last.
  pose proof (chunks_never_end_marked mark_esc L HL (S (length codes)) codes ltac:(lia) Hna Hend) as Hm.
  pose proof (chunk_sizes L 1 (guard_last mark_esc) HkL (S (length codes)) codes ltac:(lia)) as Hs.
  pose proof (chunk_concat L 1 (guard_last mark_esc) HkL (S (length codes)) codes ltac:(lia)) as Hcat.
  split; [exact Hcat|]. split; [exact Hs|]. split; [|split].
  - eapply Forall_impl; [|exact Hm]. intros c Hcm. unfold mark_esc in Hcm. apply Z.eqb_neq. exact Hcm.
  - rewrite gsm_decode_each; [rewrite Hcat; exact Hd|exact Hm|].
    eapply Forall_impl; [|exact Hs]. intros c Hlen Hnil. subst c. cbn in Hlen. lia.
  - apply chunk_count_le; lia.
Qed.

Theorem ucs2_parts text bytes h :
  ucs2_encode text = Ok bytes -> (2 <= h)%nat ->
  let chunks := ucs2_chunks (2 * h) bytes in
  concat chunks = bytes
  /\ Forall (fun c => (1 <= length c <= 2 * h)%nat) chunks
  /\ (exists uchunks, chunks = map bytes_of_units uchunks
                      /\ Forall (fun c => is_high (last c 0) = false) uchunks
                      /\ Forall (Forall unit16) uchunks)
  /\ decode_each ucs2_decode chunks = Ok text
  /\ (length chunks <= length bytes)%nat.
Proof.
  intros He Hh chunks. unfold ucs2_encode in He.
  destruct (utf16_units text) as [us|] eqn:Eu; [|discriminate]. injection He as <-.
  destruct (utf16_units_facts _ _ Eu) as (Hu & Hna & Hend & Hdec).
  assert (2 < 2 * h)%nat as HkL by lia.
  pose proof (chunk_sizes (2 * h) 2 ucs2_guard HkL (S (length (bytes_of_units us))) (bytes_of_units us) ltac:(lia)) as Hs.
  pose proof (chunk_concat (2 * h) 2 ucs2_guard HkL (S (length (bytes_of_units us))) (bytes_of_units us) ltac:(lia)) as Hcat.
  assert (chunks = map bytes_of_units (chunk_loop (S (length us)) h 1 (guard_last is_high) us)) as Ech.
  { unfold chunks, ucs2_chunks.
    rewrite (chunk_fuel (2 * h) 2 ucs2_guard HkL _ (S (2 * S (length us)))) by (rewrite bytes_of_units_length; lia).
    apply ucs2_chunks_units; auto. }
  set (uchunks := chunk_loop (S (length us)) h 1 (guard_last is_high) us) in *.
  assert (1 < h)%nat as Hk1 by lia.
  pose proof (chunks_never_end_marked is_high h Hh (S (length us)) us ltac:(lia) Hna Hend) as Hm.
  pose proof (chunk_concat h 1 (guard_last is_high) Hk1 (S (length us)) us ltac:(lia)) as Hucat.
  fold uchunks in Hm, Hucat.
  assert (Forall (Forall unit16) uchunks) as Huu by (apply Forall_concat; rewrite Hucat; exact Hu).
  split; [exact Hcat|]. split; [exact Hs|]. split; [exists uchunks; auto|]. split.
  - rewrite Ech. apply ucs2_decode_each; auto. rewrite Hucat. exact Hdec.
  - unfold chunks, ucs2_chunks. apply chunk_count_le; lia.
Qed.

(* =========================== the receiver accepts what the sender emits =========================== *)
Require Import AV.Spec.Receiver.

Lemma chunks_at_least_two (chunks : list (list Z)) (data : list Z) (L : nat) :
  concat chunks = data -> Forall (fun c => (1 <= length c <= L)%nat) chunks -> (L < length data)%nat ->
  (2 <= length chunks)%nat.
Proof.
  intros Hc Hs Hl. destruct chunks as [|c1 [|c2 t]]; cbn [length]; try lia.
  - cbn in Hc. subst data. cbn in Hl. lia.
  - cbn in Hc. rewrite app_nil_r in Hc. subst data. inversion_clear Hs as [|? ? H1 _]. lia.
Qed.

(* a family of segments built from chunk i -> segment, all recognised by the receiver *)
Lemma recv_multi_map ref n dc esm (mk : nat * list Z -> segment) (hdr : Z) :
  forall chunks k,
  (forall i c, In c chunks ->
     concat_info (mk (i, c)) = Some (ref, n, Z.of_nat i + 1, c, hdr)
     /\ seg_dc (mk (i, c)) = dc /\ seg_esm (mk (i, c)) = esm /\ fits (mk (i, c)) c hdr = true) ->
  recv_multi ref n dc esm (Z.of_nat k + 1) (map mk (combine (seq k (length chunks)) chunks))
  = decode_each (decode_body dc) chunks.
Proof.
  induction chunks as [|c t IH]; intros k Hmk; [reflexivity|].
  cbn [length seq combine map recv_multi decode_each].
  destruct (Hmk k c (or_introl eq_refl)) as (Hci & Hdc & Hesm & Hfit).
  rewrite Hci, Hdc, Hesm, Hfit, !Z.eqb_refl. cbn [andb].
  replace (Z.of_nat k + 1 + 1) with (Z.of_nat (S k) + 1) by lia.
  rewrite IH by (intros i c' Hin; apply Hmk; right; exact Hin). reflexivity.
Qed.

Lemma udhi_spec esm : 0 <= esm <= 255 -> udhi esm = true -> udhi (esm - 64) = false /\ 0 <= esm - 64.
Proof. unfold udhi. intros H1 H2. split; lia. Qed.

Lemma detect_format_cases text :
  (detect_format text = 0 /\ is_gsm_text text = true) \/ (detect_format text = 8 /\ is_gsm_text text = false).
Proof. unfold detect_format. destruct (is_gsm_text text); auto. Qed.

Lemma gsm_encode_non_gsm text : is_gsm_text text = false -> gsm_encode Strict text = Err EXN_UnicodeEncodeError.
Proof.
  intros H. unfold gsm_encode. destruct (to_gsm_codes Strict text) as [codes|] eqn:E; [|reflexivity].
  assert (is_gsm_text text = true) by (apply strict_succeeds_iff; eauto). congruence.
Qed.

Lemma gsm_encode_gsm text : is_gsm_text text = true -> exists codes, gsm_encode Strict text = Ok codes.
Proof.
  intros H. apply strict_succeeds_iff in H as [codes Hc]. exists codes. unfold gsm_encode. rewrite Hc.
  apply pack_B_septets. eapply codes_are_septets; eauto.
Qed.

Lemma ucs2_roundtrip text bytes : ucs2_encode text = Ok bytes -> ucs2_decode bytes = Ok text.
Proof.
  unfold ucs2_encode. destruct (utf16_units text) as [us|] eqn:E; [|discriminate]. intros H. injection H as <-.
  destruct (utf16_units_facts _ _ E) as (Hu & _ & _ & Hd). rewrite (ucs2_decode_units us Hu), Hd. reflexivity.
Qed.

Definition const_sizes : MAX_SM_SIZE = 254 /\ MAX_SEPTET_SIZE = 160 /\ MAX_OCTET_SIZE = 140
                         /\ IE_ID_8BIT = 0 /\ IE_ID_16BIT = 8.
Proof. vm_compute. repeat split; reflexivity. Qed.

Lemma receiver_multi_unfold ref s0 s1 rest :
  Z.of_nat (length (s0 :: s1 :: rest)) <= 255 ->
  receiver ref (s0 :: s1 :: rest) =
  recv_multi ref (Z.of_nat (length (s0 :: s1 :: rest))) (seg_dc s0) (seg_esm s0) 1 (s0 :: s1 :: rest).
Proof. intros H. unfold receiver. apply Z.leb_le in H. rewrite H. reflexivity. Qed.

Lemma recv_udh_multi esm dc ref chunks L :
  udhi esm = true -> 0 <= ref <= 255 ->
  (2 <= length chunks)%nat -> Z.of_nat (length chunks) <= 255 ->
  Forall (fun c => (1 <= length c <= L)%nat) chunks ->
  (dc = 0 /\ (L <= 153)%nat) \/ (dc = 8 /\ (L <= 134)%nat) ->
  let n := Z.of_nat (length chunks) in
  receiver ref (map (fun p => {| seg_esm := esm; seg_dc := dc; seg_sm := p; seg_sar := None |})
                    (map (fun ic : nat * list Z => 5 :: 0 :: 3 :: ref :: n :: Z.of_nat (fst ic) + 1 :: snd ic)
                         (combine (seq 0 (length chunks)) chunks)))
  = decode_each (decode_body dc) chunks.
Proof.
  intros Hu Hr H2 H255 Hs Hdc n. rewrite map_map.
  set (mk := fun ic : nat * list Z =>
               {| seg_esm := esm; seg_dc := dc;
                  seg_sm := 5 :: 0 :: 3 :: ref :: n :: Z.of_nat (fst ic) + 1 :: snd ic; seg_sar := None |}).
  assert (length (map mk (combine (seq 0 (length chunks)) chunks)) = length chunks) as Hlen
    by (rewrite map_length, combine_length, seq_length; lia).
  destruct (map mk (combine (seq 0 (length chunks)) chunks)) as [|s0 [|s1 rest]] eqn:Em;
    [cbn in Hlen; lia|cbn in Hlen; lia|].
  rewrite receiver_multi_unfold by (rewrite Hlen; exact H255). rewrite Hlen. fold n.
  assert (seg_dc s0 = dc /\ seg_esm s0 = esm) as [-> ->].
  { destruct chunks as [|c0 ct]; [cbn in H2; lia|]. cbn in Em. injection Em as <- _. split; reflexivity. }
  rewrite <- Em. change 1 with (Z.of_nat 0 + 1).
  apply (recv_multi_map ref n dc esm mk 6).
  intros i c Hin. rewrite Forall_forall in Hs. specialize (Hs c Hin).
  unfold mk. cbn [fst snd app]. split; [|split; [reflexivity|split; [reflexivity|]]].
  - unfold concat_info. cbn [seg_esm seg_sm]. rewrite Hu. reflexivity.
  - unfold fits. cbn [seg_sm seg_dc length]. destruct Hdc as [[-> HL]|[-> HL]].
    + change (0 =? 0) with true. change (6 =? 0) with false. cbv iota.
      apply andb_true_intro; split; apply Z.leb_le; change ((6 * 8 + 6) / 7) with 7; lia.
    + change (8 =? 0) with false. change (6 =? 0) with false. cbv iota.
      apply andb_true_intro; split; apply Z.leb_le; lia.
Qed.

Lemma recv_sar_multi esm dc ref chunks :
  udhi esm = false ->
  (2 <= length chunks)%nat -> Z.of_nat (length chunks) <= 255 ->
  Forall (fun c => (1 <= length c <= 254)%nat) chunks ->
  let n := Z.of_nat (length chunks) in
  receiver ref (map (fun ip : nat * list Z => {| seg_esm := esm; seg_dc := dc; seg_sm := snd ip;
                                                  seg_sar := Some (ref, Z.of_nat (fst ip) + 1, n) |})
                    (combine (seq 0 (length chunks)) chunks))
  = decode_each (decode_body dc) chunks.
Proof.
  intros Hu H2 H255 Hs n.
  set (mk := fun ip : nat * list Z => {| seg_esm := esm; seg_dc := dc; seg_sm := snd ip;
                                         seg_sar := Some (ref, Z.of_nat (fst ip) + 1, n) |}).
  assert (length (map mk (combine (seq 0 (length chunks)) chunks)) = length chunks) as Hlen
    by (rewrite map_length, combine_length, seq_length; lia).
  destruct (map mk (combine (seq 0 (length chunks)) chunks)) as [|s0 [|s1 rest]] eqn:Em;
    [cbn in Hlen; lia|cbn in Hlen; lia|].
  rewrite receiver_multi_unfold by (rewrite Hlen; exact H255). rewrite Hlen. fold n.
  assert (seg_dc s0 = dc /\ seg_esm s0 = esm) as [-> ->].
  { destruct chunks as [|c0 ct]; [cbn in H2; lia|]. cbn in Em. injection Em as <- _. split; reflexivity. }
  rewrite <- Em. change 1 with (Z.of_nat 0 + 1).
  apply (recv_multi_map ref n dc esm mk 0).
  intros i c Hin. rewrite Forall_forall in Hs. specialize (Hs c Hin).
  unfold mk. cbn [fst snd]. split; [|split; [reflexivity|split; [reflexivity|]]].
  - unfold concat_info. cbn [seg_esm seg_sm seg_sar]. rewrite Hu. reflexivity.
  - unfold fits. cbn [seg_sm seg_dc]. change (0 =? 0) with true. rewrite andb_true_r. apply Z.leb_le. lia.
Qed.

Lemma not_singleton {A} (l : list A) : (2 <= length l)%nat -> forall (B : Type) (f : A -> B) (g : B),
  match l with [x] => f x | _ => g end = g.
Proof. intros H B f g. destruct l as [|a [|b t]]; cbn in H; try lia; reflexivity. Qed.

Lemma ba_append_ok x : 0 <= x <= 255 -> ba_append x = Ok x.
Proof. intros H. unfold ba_append, is_octet. replace ((0 <=? x) && (x <=? 255)) with true by lia. reflexivity. Qed.

Lemma ba_append_inv x y : ba_append x = Ok y -> y = x /\ 0 <= x <= 255.
Proof. unfold ba_append, is_octet. destruct ((0 <=? x) && (x <=? 255)) eqn:E; [|discriminate]. intros H. injection H as <-. lia. Qed.

Lemma encode_user_data_ok d : Z.of_nat (length d) <= 255 -> encode_user_data d = Ok (Z.of_nat (length d) :: d).
Proof. intros H. unfold encode_user_data, is_octet. replace ((0 <=? Z.of_nat (length d)) && (Z.of_nat (length d) <=? 255)) with true by lia. reflexivity. Qed.

Lemma decode_body_0 : decode_body 0 = gsm_decode Strict.
Proof. reflexivity. Qed.
Lemma decode_body_8 : decode_body 8 = ucs2_decode.
Proof. reflexivity. Qed.

(* every message the sender segments is accepted by the independent receiver, which returns the text *)
Theorem prepare_received text esm ref segs :
  0 <= ref <= 255 -> 0 <= esm <= 255 ->
  prepare_segments text esm ref = Ok segs -> receiver ref segs = Ok text.
Proof.
  intros Hr He. destruct const_sizes as (Esm & Esep & Eoct & Ei8 & Ei16).
  unfold prepare_segments. fold (udhi esm). destruct (udhi esm) eqn:Hu.
  - (* ---------------- UDH ---------------- *)
    unfold split_sms_udh. replace (255 <? ref) with false by lia. cbv iota. cbv zeta.
    rewrite Esep, Eoct, Ei8.
    destruct (detect_format_cases text) as [[Ed Hg]|[Ed Hg]]; rewrite Ed.
    + (* GSM text *)
      change (0 =? 0) with true. cbv iota.
      destruct (gsm_encode_gsm text Hg) as [codes Hc]. rewrite Hc. cbn [rbind].
      destruct (gsm_encode_strict_codes _ _ Hc) as (_ & _ & Hdec & _).
      destruct (Z.leb_spec (Z.of_nat (length codes)) 160) as [Hle|Hgt].
      * rewrite encode_user_data_ok by lia. cbn [rbind].
        unfold smpp_encode_auto. rewrite Hc. cbn [rbind fst snd].
        replace (254 <? Z.of_nat (length codes)) with false by lia.
        intros H. injection H as <-.
        destruct (udhi_spec esm He Hu) as [Hu' _].
        unfold receiver, concat_info. cbn [seg_esm seg_sar seg_sm seg_dc]. rewrite Hu'. cbn [negb andb].
        replace (Z.of_nat (length codes) <=? 254) with true by lia. exact Hdec.
      * change (160 - 5 - 2) with 153. rewrite ba_append_ok by lia. cbn [rbind].
        pose proof (gsm_parts text codes 153 Hc ltac:(lia)) as (Hcat & Hs & _ & Hde & _).
        set (chunks := gsm_chunks (Z.to_nat 153) codes) in *.
        change (Z.to_nat 153) with 153%nat in *.
        assert (2 <= length chunks)%nat as H2 by (eapply chunks_at_least_two; eauto; lia).
        destruct (ba_append (Z.of_nat (length chunks))) as [tot|] eqn:Eb; cbn [rbind]; [|discriminate].
        apply ba_append_inv in Eb as [-> Hb].
        rewrite not_singleton by (rewrite map_length, combine_length, seq_length; lia).
        intros H. injection H as <-.
        rewrite (recv_udh_multi esm 0 ref chunks 153 Hu Hr H2 ltac:(lia) Hs ltac:(left; split; [reflexivity|lia])).
        rewrite decode_body_0. exact Hde.
    + (* not GSM: UCS2 *)
      change (8 =? 0) with false. cbv iota.
      destruct (ucs2_encode text) as [bytes|e] eqn:Hc; cbn [rbind]; [|discriminate].
      destruct (Z.leb_spec (Z.of_nat (length bytes)) 140) as [Hle|Hgt].
      * rewrite encode_user_data_ok by lia. cbn [rbind].
        unfold smpp_encode_auto. rewrite (gsm_encode_non_gsm text Hg), Z.eqb_refl, Hc. cbn [rbind fst snd].
        replace (254 <? Z.of_nat (length bytes)) with false by lia.
        intros H. injection H as <-.
        destruct (udhi_spec esm He Hu) as [Hu' _].
        unfold receiver, concat_info. cbn [seg_esm seg_sar seg_sm seg_dc]. rewrite Hu'. cbn [negb andb].
        replace (Z.of_nat (length bytes) <=? 254) with true by lia.
        rewrite decode_body_8. apply ucs2_roundtrip. exact Hc.
      * change (140 - 5 - 1 - (5 + 1) mod 2) with 134. rewrite ba_append_ok by lia. cbn [rbind].
        pose proof (ucs2_parts text bytes 67 Hc ltac:(lia)) as (Hcat & Hs & _ & Hde & _).
        change (Z.to_nat 134) with (2 * 67)%nat.
        set (chunks := ucs2_chunks (2 * 67) bytes) in *.
        assert (2 <= length chunks)%nat as H2 by (eapply chunks_at_least_two; eauto; lia).
        destruct (ba_append (Z.of_nat (length chunks))) as [tot|] eqn:Eb; cbn [rbind]; [|discriminate].
        apply ba_append_inv in Eb as [-> Hb].
        rewrite not_singleton by (rewrite map_length, combine_length, seq_length; lia).
        intros H. injection H as <-.
        rewrite (recv_udh_multi esm 8 ref chunks (2 * 67) Hu Hr H2 ltac:(lia) Hs ltac:(right; split; [reflexivity|lia])).
        rewrite decode_body_8. exact Hde.
  - (* ---------------- SAR ---------------- *)
    unfold smpp_encode_auto, split_sms. rewrite Esm.
    destruct (detect_format_cases text) as [[Ed Hg]|[Ed Hg]].
    + destruct (gsm_encode_gsm text Hg) as [codes Hc]. rewrite Hc. cbn [rbind fst snd].
      change (0 =? 0) with true. cbv iota. rewrite Ed. change (0 =? 0) with true. cbv iota.
      try rewrite Hc. cbn [rbind].
      destruct (gsm_encode_strict_codes _ _ Hc) as (_ & _ & Hdec & _).
      destruct (Z.leb_spec (Z.of_nat (length codes)) 254) as [Hle|Hgt].
      * rewrite encode_user_data_ok by lia. cbn [rbind].
        intros H. injection H as <-.
        unfold receiver, concat_info. cbn [seg_esm seg_sar seg_sm seg_dc]. rewrite Hu. cbn [negb andb].
        replace (Z.of_nat (length codes) <=? 254) with true by lia. exact Hdec.
      * cbn [rbind]. pose proof (gsm_parts text codes 254 Hc ltac:(lia)) as (Hcat & Hs & _ & Hde & _).
        change (Z.to_nat 254) with 254%nat.
        set (chunks := gsm_chunks 254 codes) in *.
        assert (2 <= length chunks)%nat as H2 by (eapply chunks_at_least_two; eauto; lia).
        rewrite not_singleton by exact H2.
        destruct (Z.ltb_spec 255 (Z.of_nat (length chunks))) as [Hbig|Hsmall]; [discriminate|].
        intros H. injection H as <-.
        rewrite (recv_sar_multi esm 0 ref chunks Hu H2 Hsmall Hs). rewrite decode_body_0. exact Hde.
    + rewrite (gsm_encode_non_gsm text Hg), Z.eqb_refl.
      destruct (ucs2_encode text) as [bytes|e] eqn:Hc; cbn [rbind fst snd]; [|discriminate].
      change (8 =? 0) with false. cbv iota. change (8 =? 0) with false. cbv iota.
      try rewrite Hc. cbn [rbind].
      destruct (Z.leb_spec (Z.of_nat (length bytes)) 254) as [Hle|Hgt].
      * rewrite encode_user_data_ok by lia. cbn [rbind].
        intros H. injection H as <-.
        unfold receiver, concat_info. cbn [seg_esm seg_sar seg_sm seg_dc]. rewrite Hu. cbn [negb andb].
        replace (Z.of_nat (length bytes) <=? 254) with true by lia.
        rewrite decode_body_8. apply ucs2_roundtrip. exact Hc.
      * cbn [rbind]. pose proof (ucs2_parts text bytes 127 Hc ltac:(lia)) as (Hcat & Hs & _ & Hde & _).
        change (Z.to_nat 254) with (2 * 127)%nat.
        set (chunks := ucs2_chunks (2 * 127) bytes) in *.
        assert (2 <= length chunks)%nat as H2 by (eapply chunks_at_least_two; eauto; lia).
        rewrite not_singleton by exact H2.
        destruct (Z.ltb_spec 255 (Z.of_nat (length chunks))) as [Hbig|Hsmall]; [discriminate|].
        intros H. injection H as <-.
        rewrite (recv_sar_multi esm 8 ref chunks Hu H2 Hsmall Hs). rewrite decode_body_8. exact Hde.
Qed.

Lemma receiver_at_most_255 ref segs text : receiver ref segs = Ok text -> (1 <= length segs <= 255)%nat.
Proof.
  unfold receiver. destruct segs as [|s0 [|s1 rest]]; [discriminate|cbn [length]; lia|].
  destruct (Z.leb_spec (Z.of_nat (length (s0 :: s1 :: rest))) 255); [|discriminate].
  intros _. cbn [length] in *. lia.
Qed.

Corollary prepare_at_most_255 text esm ref segs :
  0 <= ref <= 255 -> 0 <= esm <= 255 -> prepare_segments text esm ref = Ok segs -> (1 <= length segs <= 255)%nat.
Proof. intros Hr He H. apply (receiver_at_most_255 ref segs text). apply (prepare_received text esm ref segs Hr He H). Qed.

(* ---- split_sms_udh with a 16-bit reference (never produced by the ESME, reachable through the API) ---- *)
Lemma recv_udh_multi16 dc ref chunks L :
  256 <= ref <= 65535 ->
  (2 <= length chunks)%nat -> Z.of_nat (length chunks) <= 255 ->
  Forall (fun c => (1 <= length c <= L)%nat) chunks ->
  (dc = 0 /\ (L <= 152)%nat) \/ (dc = 8 /\ (L <= 132)%nat) ->
  let n := Z.of_nat (length chunks) in
  receiver ref (map (fun p => {| seg_esm := 64; seg_dc := dc; seg_sm := p; seg_sar := None |})
                    (map (fun ic : nat * list Z => 6 :: 8 :: 4 :: ref / 256 :: ref mod 256 :: n :: Z.of_nat (fst ic) + 1 :: snd ic)
                         (combine (seq 0 (length chunks)) chunks)))
  = decode_each (decode_body dc) chunks.
Proof.
  intros Hr H2 H255 Hs Hdc n. rewrite map_map.
  set (mk := fun ic : nat * list Z =>
               {| seg_esm := 64; seg_dc := dc;
                  seg_sm := 6 :: 8 :: 4 :: ref / 256 :: ref mod 256 :: n :: Z.of_nat (fst ic) + 1 :: snd ic; seg_sar := None |}).
  assert (length (map mk (combine (seq 0 (length chunks)) chunks)) = length chunks) as Hlen
    by (rewrite map_length, combine_length, seq_length; lia).
  destruct (map mk (combine (seq 0 (length chunks)) chunks)) as [|s0 [|s1 rest]] eqn:Em;
    [cbn in Hlen; lia|cbn in Hlen; lia|].
  rewrite receiver_multi_unfold by (rewrite Hlen; exact H255). rewrite Hlen. fold n.
  assert (seg_dc s0 = dc /\ seg_esm s0 = 64) as [-> ->].
  { destruct chunks as [|c0 ct]; [cbn in H2; lia|]. cbn in Em. injection Em as <- _. split; reflexivity. }
  rewrite <- Em. change 1 with (Z.of_nat 0 + 1).
  apply (recv_multi_map ref n dc 64 mk 7).
  intros i c Hin. rewrite Forall_forall in Hs. specialize (Hs c Hin).
  unfold mk. cbn [fst snd]. split; [|split; [reflexivity|split; [reflexivity|]]].
  - unfold concat_info. cbn [seg_esm seg_sm]. change (udhi 64) with true. cbv iota.
    change ((8 =? 0) && (4 =? 3) && (6 =? 5)) with false. change ((8 =? 8) && (4 =? 4) && (6 =? 6)) with true. cbv iota.
    do 5 f_equal. lia.
  - unfold fits. cbn [seg_sm seg_dc length]. destruct Hdc as [[-> HL]|[-> HL]].
    + change (0 =? 0) with true. change (7 =? 0) with false. cbv iota.
      apply andb_true_intro; split; apply Z.leb_le; change ((7 * 8 + 6) / 7) with 8; lia.
    + change (8 =? 0) with false. change (7 =? 0) with false. cbv iota.
      apply andb_true_intro; split; apply Z.leb_le; lia.
Qed.

Theorem split_udh16_received text ref parts :
  256 <= ref <= 65535 -> split_sms_udh text None ref = Ok parts -> (2 <= length parts)%nat ->
  receiver ref (map (fun p => {| seg_esm := 64; seg_dc := detect_format text; seg_sm := p; seg_sar := None |}) parts) = Ok text.
Proof.
  intros Hr. destruct const_sizes as (Esm & Esep & Eoct & Ei8 & Ei16).
  unfold split_sms_udh. replace (255 <? ref) with true by lia. cbv iota. cbv zeta.
  rewrite Esep, Eoct, Ei16.
  destruct (detect_format_cases text) as [[Ed Hg]|[Ed Hg]]; rewrite Ed.
  - change (0 =? 0) with true. cbv iota.
    destruct (gsm_encode_gsm text Hg) as [codes Hc]. rewrite Hc. cbn [rbind].
    destruct (Z.leb_spec (Z.of_nat (length codes)) 160) as [Hle|Hgt].
    + rewrite encode_user_data_ok by lia. cbn [rbind]. intros H. injection H as <-. cbn [length]. lia.
    + change (160 - 6 - 2) with 152. rewrite !ba_append_ok by lia. cbn [rbind].
      pose proof (gsm_parts text codes 152 Hc ltac:(lia)) as (Hcat & Hs & _ & Hde & _).
      set (chunks := gsm_chunks (Z.to_nat 152) codes) in *. change (Z.to_nat 152) with 152%nat in *.
      assert (2 <= length chunks)%nat as H2 by (eapply chunks_at_least_two; eauto; lia).
      destruct (ba_append (Z.of_nat (length chunks))) as [tot|] eqn:Eb; cbn [rbind]; [|discriminate].
      apply ba_append_inv in Eb as [-> Hb].
      intros H _. injection H as <-.
      rewrite (recv_udh_multi16 0 ref chunks 152 Hr H2 ltac:(lia) Hs ltac:(left; split; [reflexivity|lia])).
      rewrite decode_body_0. exact Hde.
  - change (8 =? 0) with false. cbv iota.
    destruct (ucs2_encode text) as [bytes|e] eqn:Hc; cbn [rbind]; [|discriminate].
    destruct (Z.leb_spec (Z.of_nat (length bytes)) 140) as [Hle|Hgt].
    + rewrite encode_user_data_ok by lia. cbn [rbind]. intros H. injection H as <-. cbn [length]. lia.
    + change (140 - 6 - 1 - (6 + 1) mod 2) with 132. rewrite !ba_append_ok by lia. cbn [rbind].
      pose proof (ucs2_parts text bytes 66 Hc ltac:(lia)) as (Hcat & Hs & _ & Hde & _).
      change (Z.to_nat 132) with (2 * 66)%nat.
      set (chunks := ucs2_chunks (2 * 66) bytes) in *.
      assert (2 <= length chunks)%nat as H2 by (eapply chunks_at_least_two; eauto; lia).
      destruct (ba_append (Z.of_nat (length chunks))) as [tot|] eqn:Eb; cbn [rbind]; [|discriminate].
      apply ba_append_inv in Eb as [-> Hb].
      intros H _. injection H as <-.
      rewrite (recv_udh_multi16 8 ref chunks (2 * 66) Hr H2 ltac:(lia) Hs ltac:(right; split; [reflexivity|lia])).
      rewrite decode_body_8. exact Hde.
Qed.
