From Coq Require Import ZArith List Bool Lia.
Import ListNotations.
Require Import AV.Generated.ExnOrder AV.Generated.SmppConsts AV.Generated.Handled AV.Model.Base AV.Model.Pdu AV.Model.Recv AV.Model.RecvActions
               AV.Proofs.RecvProofs.

Lemma recv_order_facts : receiver_hook_before_response = true /\ request_nack_hook_on_failure = true.
Proof. split; reflexivity. Qed.


Lemma hook_calls_writes_then_nothing l ok n : (hook_calls (map RWrite l) ok n <= 0)%nat.
Proof.
  revert n. induction l as [|p t IH]; intros n; cbn [map hook_calls]; [lia|]. destruct (ok n); [apply IH|lia].
Qed.

Lemma hook_calls_guarded l ok n : (length l <= 1)%nat -> hook_calls (map RWriteGuarded l ++ [RHook false]) ok n = 1%nat.
Proof.
  intros Hl. destruct l as [|p [|q t]]; cbn [length] in Hl; try lia; cbn [map app hook_calls]; [reflexivity|].
  destruct (ok n); reflexivity.
Qed.

(* every PDU whose handling does not end in an (unmodelled) exception of the parser reaches the received hook exactly once,
   whether the writes of its handling succeed or fail, each on its own *)
Theorem handed_over_exactly_once default pdu h ok :
  (forall e, rx_out (react default pdu h) <> ORaise e) ->
  hook_calls (actions (react default pdu h)) ok 0 = 1%nat.
Proof.
  intros Hnr. unfold actions. destruct recv_order_facts as [-> ->].
  assert (length (rx_sent (react default pdu h)) <= 1)%nat as Hlen.
  { unfold react.
    repeat (match goal with
            | |- context [if ?b then _ else _] => destruct b
            | |- context [match ?x with Ok _ => _ | Err _ => _ end] => destruct x
            end); cbn [rx_sent length]; lia. }
  destruct (rx_out (react default pdu h)) as [| |e] eqn:Eo; try (exfalso; apply (Hnr e); reflexivity).
  - destruct (rx_parsed (react default pdu h)).
    + cbn [hook_calls]. f_equal. pose proof (hook_calls_writes_then_nothing (rx_sent (react default pdu h)) ok 0). lia.
    + apply hook_calls_guarded. exact Hlen.
  - destruct (rx_parsed (react default pdu h)).
    + cbn [hook_calls]. f_equal. pose proof (hook_calls_writes_then_nothing (rx_sent (react default pdu h)) ok 0). lia.
    + apply hook_calls_guarded. exact Hlen.
Qed.

(* a parsed request is answered only after the hook returned *)
Theorem parsed_answered_after_hook default pdu h :
  rx_parsed (react default pdu h) = true -> (forall e, rx_out (react default pdu h) <> ORaise e) ->
  hook_precedes_writes (actions (react default pdu h)) = true.
Proof.
  intros Hp Hnr. unfold actions. destruct recv_order_facts as [-> _]. rewrite Hp.
  destruct (rx_out (react default pdu h)) as [| |e]; try reflexivity.
Qed.

(* a PDU that was read reaches the hook also when the receiver is cancelled while handling it (structural fact read off the source;
   the behaviour is validated against the real session by harness/C01.py receiver_cancelled sessions) *)
Theorem read_pdu_survives_cancellation is_req ph : hook_calls_when_cancelled is_req ph = 1%nat.
Proof.
  unfold hook_calls_when_cancelled. assert (receiver_finishes_read_pdu = true) as -> by reflexivity.
  assert (request_handling_cancel_guard = true) as -> by reflexivity. destruct ph, is_req; reflexivity.
Qed.
