(* Lemmas for C01: one segmented message, any admissible interleaving of its puts, accepting / rejecting / nack responses
   and time-outs: no outcome before every segment is processed, exactly one then, a failure iff some segment failed. *)
From Coq Require Import ZArith QArith List Bool Lia Setoid.
Import ListNotations.
Require Import AV.Generated.ExnOrder AV.Generated.SmppConsts AV.Generated.Handled
               AV.Model.Base AV.Model.PyDict AV.Model.Limiter AV.Model.Correlator AV.Model.Seq AV.Model.Handlers
               AV.Proofs.PyDictProofs AV.Proofs.CorrelatorProofs AV.Proofs.HandlersProofs.
Open Scope Z_scope.

Lemma outcome_constants :
  SmppCommand_SUBMIT_SM = 4 /\ SmppCommand_SUBMIT_SM_RESP = 2147483652 /\ SmppCommand_GENERIC_NACK = 2147483648
  /\ SmppCommandStatus_ESME_ROK = 0 /\ STATUS_SENDING = 65535 /\ STATUS_FAILED = 65534 /\ STATUS_EXPIRED = 65533 /\ STATUS_SENT = 65532
  /\ mem 2147483652 handled_response_commands = true /\ mem 2147483648 handled_response_commands = true
  /\ lookup 2147483652 response_command_map = Some 4.
Proof. vm_compute. repeat split; reflexivity. Qed.

Inductive qphase := QNot | QSending | QOk | QFail | QExp.
Definition qcode (p : qphase) : Z :=
  match p with QNot | QSending => STATUS_SENDING | QOk => STATUS_SENT | QFail => STATUS_FAILED | QExp => STATUS_EXPIRED end.
Definition processed (p : qphase) : bool := match p with QOk | QFail | QExp => true | _ => false end.
Definition is_qnot (p : qphase) : bool := match p with QNot => true | _ => false end.
Definition is_qfail (p : qphase) : bool := match p with QFail => true | _ => false end.
Definition is_qexp (p : qphase) : bool := match p with QExp => true | _ => false end.
Definition answered (p : qphase) : bool := match p with QOk | QFail => true | _ => false end.

(* a response is a failure when it is a generic_nack or carries an error status *)
Definition is_fail (r : resp) : bool := (rs_cmd r =? SmppCommand_GENERIC_NACK) || negb (rs_status r =? SmppCommandStatus_ESME_ROK).

Section Outcome.
  Variables (r log : Z) (k : nat) (sq uid : nat -> Z).
  Hypothesis Hk : (2 <= k)%nat.
  Hypothesis Hk255 : (k <= 255)%nat.           (* sar_total_segments is a single octet *)
  Hypothesis sq_inj : forall i j, (i < k)%nat -> (j < k)%nat -> sq i = sq j -> i = j.

  Definition oseg (i : nat) : smsg :=
    {| sm_uid := uid i; sm_cmd := 4; sm_seq := sq i; sm_log := log; sm_sar := (r, Z.of_nat i + 1, Z.of_nat k) |}.
  (* the key of the message's status cell: its reference combined with the sequence number of its first segment *)
  Definition K : Z := skey r (sq 0%nat).
  Definition oidx : list nat := seq 0 k.
  Definition ostatus (q : nat -> qphase) : dict Z := map (fun i => (Z.of_nat i + 1, qcode (q i))) oidx.
  Definition qupd (q : nat -> qphase) (i : nat) (p : qphase) : nat -> qphase := fun j => if Nat.eqb j i then p else q j.

  Lemma qupd_same q i p : qupd q i p i = p. Proof. unfold qupd. rewrite Nat.eqb_refl. reflexivity. Qed.
  Lemma qupd_other q i p j : j <> i -> qupd q i p j = q j.
  Proof. intros H. unfold qupd. destruct (Nat.eqb_spec j i); [congruence|reflexivity]. Qed.
  Lemma In_oidx i : In i oidx <-> (i < k)%nat. Proof. unfold oidx. rewrite in_seq. lia. Qed.

  Lemma ostatus_set q i p : (i < k)%nat -> dset (ostatus q) (Z.of_nat i + 1) (qcode p) = ostatus (qupd q i p).
  Proof.
    intros Hi. unfold ostatus, oidx.
    assert (forall l, NoDup l -> In i l ->
              dset (map (fun j => (Z.of_nat j + 1, qcode (q j))) l) (Z.of_nat i + 1) (qcode p)
              = map (fun j => (Z.of_nat j + 1, qcode (qupd q i p j))) l) as H.
    { induction l as [|j t IH]; intros Hnd Hin; [destruct Hin|]. cbn [map dset].
      inversion_clear Hnd as [|? ? Hn Ht].
      destruct (Z.eqb_spec (Z.of_nat i + 1) (Z.of_nat j + 1)) as [E|E].
      - assert (i = j) as -> by lia. rewrite qupd_same. f_equal.
        apply map_ext_in. intros x Hx. rewrite qupd_other; [reflexivity|]. intros ->. contradiction.
      - assert (i <> j) by (intros ->; lia). rewrite (qupd_other q i p j) by congruence. f_equal.
        apply IH; [exact Ht|]. destruct Hin as [->|Hin]; [congruence|exact Hin]. }
    apply H; [apply seq_NoDup|apply in_seq; lia].
  Qed.

  Lemma ostatus_values q : map snd (ostatus q) = map (fun i => qcode (q i)) oidx.
  Proof. unfold ostatus. rewrite map_map. reflexivity. Qed.

  Lemma ofresh q : (forall j, (j < k)%nat -> q j = QNot) ->
    map (fun j => (Z.of_nat j, STATUS_SENDING)) (seq 1 k) = ostatus q.
  Proof.
    intros H. unfold ostatus, oidx. rewrite <- seq_shift, map_map. apply map_ext_in. intros j Hj.
    apply in_seq in Hj. rewrite (H j) by lia. cbn [qcode]. f_equal. lia.
  Qed.

  Lemma oforallb_false (f : nat -> bool) j : (j < k)%nat -> f j = false -> forallb f oidx = false.
  Proof.
    intros Hj Hf. destruct (forallb f oidx) eqn:E; [|reflexivity]. rewrite forallb_forall in E.
    rewrite (E j) in Hf; [discriminate|apply In_oidx; exact Hj].
  Qed.
  Lemma oexistsb_true (f : nat -> bool) j : (j < k)%nat -> f j = true -> existsb f oidx = true.
  Proof. intros Hj Hf. apply existsb_exists. exists j. split; [apply In_oidx; exact Hj|exact Hf]. Qed.

  (* the status the message ends with *)
  Definition final_code (q : nat -> qphase) : Z :=
    if existsb (fun i => is_qfail (q i)) oidx then STATUS_FAILED
    else if existsb (fun i => is_qexp (q i)) oidx then STATUS_EXPIRED else STATUS_SENT.
  Definition all_processed (q : nat -> qphase) : bool := forallb (fun i => processed (q i)) oidx.

  Lemma codes_nonempty q : exists v vs, map (fun i => qcode (q i)) oidx = v :: vs.
  Proof. unfold oidx. destruct k as [|k']; [lia|]. cbn [seq map]. eauto. Qed.

  Lemma zmax_of_codes q v vs : map (fun i => qcode (q i)) oidx = v :: vs ->
    (forall i, (i < k)%nat -> qcode (q i) <= zmax_list vs v) /\ exists i, (i < k)%nat /\ zmax_list vs v = qcode (q i).
  Proof.
    intros El. split.
    - intros i Hi. assert (In (qcode (q i)) (v :: vs)) as Hin by (rewrite <- El; apply in_map_iff; exists i; split; [reflexivity|apply In_oidx; exact Hi]).
      destruct Hin as [E|Hin]; [pose proof (zmax_list_ge vs v); lia|apply zmax_list_In; exact Hin].
    - assert (In (zmax_list vs v) (v :: vs)) as Hin by (destruct (zmax_list_mem vs v) as [E|Hm]; [rewrite E; left; reflexivity|right; exact Hm]).
      rewrite <- El in Hin. apply in_map_iff in Hin as [i [Ei Hi]]. exists i. split; [apply In_oidx; exact Hi|symmetry; exact Ei].
  Qed.

  Lemma cumulated_open_o c cell q j : (j < k)%nat -> processed (q j) = false -> ss_status cell = ostatus q ->
    cumulated c K cell = (c, STATUS_SENDING).
  Proof.
    intros Hj Hnp Hs. destruct outcome_constants as (_ & _ & _ & _ & CS & CF & CE & CT & _).
    unfold cumulated. rewrite Hs, ostatus_values. destruct (codes_nonempty q) as (v & vs & El). rewrite El.
    destruct (zmax_of_codes q v vs El) as [Hub (i & Hi & Hmax)].
    assert (zmax_list vs v = STATUS_SENDING) as ->.
    { assert (qcode (q j) = STATUS_SENDING) as Ej by (destruct (q j); try discriminate; reflexivity).
      pose proof (Hub j Hj). assert (qcode (q i) <= STATUS_SENDING) by (destruct (q i); cbn [qcode]; lia). lia. }
    rewrite Z.eqb_refl. reflexivity.
  Qed.

  Lemma cumulated_done_o c cell q : all_processed q = true -> ss_status cell = ostatus q ->
    cumulated c K cell = (if final_code q =? STATUS_SENT then c else with_stat c (ddel K (c_stat c)), final_code q).
  Proof.
    intros Hall Hs. destruct outcome_constants as (_ & _ & _ & _ & CS & CF & CE & CT & _).
    unfold all_processed in Hall. rewrite forallb_forall in Hall.
    unfold cumulated. rewrite Hs, ostatus_values. destruct (codes_nonempty q) as (v & vs & El). rewrite El.
    destruct (zmax_of_codes q v vs El) as [Hub (i & Hi & Hmax)].
    assert (zmax_list vs v = final_code q) as ->.
    { unfold final_code.
      destruct (existsb (fun i => is_qfail (q i)) oidx) eqn:Ef.
      - apply existsb_exists in Ef as (j & Hj & Hjf). apply In_oidx in Hj. pose proof (Hub j Hj) as Hle.
        assert (qcode (q j) = STATUS_FAILED) as Ej by (destruct (q j); try discriminate; reflexivity).
        pose proof (Hall i (proj2 (In_oidx i) Hi)) as Hpi. destruct (q i); try discriminate; cbn [qcode] in Hmax; lia.
      - destruct (existsb (fun i => is_qexp (q i)) oidx) eqn:Ee.
        + apply existsb_exists in Ee as (j & Hj & Hje). apply In_oidx in Hj. pose proof (Hub j Hj) as Hle.
          assert (qcode (q j) = STATUS_EXPIRED) as Ej by (destruct (q j); try discriminate; reflexivity).
          pose proof (Hall i (proj2 (In_oidx i) Hi)) as Hpi.
          assert (is_qfail (q i) = false) as Hnf.
          { destruct (is_qfail (q i)) eqn:E; [|reflexivity]. rewrite (oexistsb_true _ i Hi E) in Ef. discriminate. }
          destruct (q i); try discriminate; cbn [qcode] in Hmax; lia.
        + pose proof (Hall i (proj2 (In_oidx i) Hi)) as Hpi.
          assert (is_qfail (q i) = false) as Hnf by (destruct (is_qfail (q i)) eqn:E; [rewrite (oexistsb_true _ i Hi E) in Ef; discriminate|reflexivity]).
          assert (is_qexp (q i) = false) as Hne by (destruct (is_qexp (q i)) eqn:E; [rewrite (oexistsb_true _ i Hi E) in Ee; discriminate|reflexivity]).
          destruct (q i); try discriminate; cbn [qcode] in Hmax; exact Hmax. }
    unfold final_code. destruct (existsb (fun i => is_qfail (q i)) oidx); [rewrite CF, CS, CT; reflexivity|].
    destruct (existsb (fun i => is_qexp (q i)) oidx); [rewrite CE, CS, CT; reflexivity|]. rewrite CT, CS. reflexivity.
  Qed.

  (* ---- the invariant tying the correlator state to the phases of the segments ---- *)
  Definition lr_after (lr : option resp) (r' : resp) : option resp :=
    if is_fail r' then Some r' else match lr with Some _ => lr | None => Some r' end.

  Definition lr_okq (q : nat -> qphase) (lr : option resp) (rlog : dict Z) : Prop :=
    ((forall i, (i < k)%nat -> answered (q i) = false) -> lr = None)
    /\ ((exists i, (i < k)%nat /\ q i = QFail) -> exists r', lr = Some r' /\ is_fail r' = true)
    /\ ((forall i, (i < k)%nat -> q i <> QFail) -> forall r', lr = Some r' -> is_fail r' = false)
    /\ ((exists i, (i < k)%nat /\ answered (q i) = true) -> lr <> None)
    /\ (forall r', lr = Some r' -> dget (rs_uid r') rlog = Some log)
    /\ (forall r', lr = Some r' -> rs_cmd r' = SmppCommand_SUBMIT_SM_RESP \/ rs_cmd r' = SmppCommand_GENERIC_NACK).

  Definition QI0 (s : hstate) (q : nat -> qphase) (lr : option resp) : Prop :=
    (forall i, (i < k)%nat ->
       match q i with
       | QSending => exists e, dget (sq i) (c_store (h_corr s)) = Some e /\ e_msg e = oseg i
       | _ => dget (sq i) (c_store (h_corr s)) = None
       end)
    /\ (forall i, (i < k)%nat ->
         dget (sq i) (c_seg (h_corr s)) = match q i with QSending | QOk | QFail => Some (K, Z.of_nat i + 1) | _ => None end)
    /\ (if forallb (fun i => is_qnot (q i)) oidx then True
        else if all_processed q && negb (final_code q =? STATUS_SENT) then dget K (c_stat (h_corr s)) = None
        else exists cell, dget K (c_stat (h_corr s)) = Some cell /\ ss_status cell = ostatus q
                          /\ ss_orig cell = oseg 0 /\ ss_last_resp cell = lr)
    /\ lr_okq q lr (h_rlog s)
    /\ NoDup (dkeys (c_seg (h_corr s))) /\ NoDup (dkeys (c_stat (h_corr s))) /\ NoDup (dkeys (c_store (h_corr s)))
    /\ (q 0%nat = QNot -> forall j, (j < k)%nat -> q j = QNot).

  Lemma oseg_is_submit i : is_submit (oseg i) = true.
  Proof. destruct outcome_constants as (C4 & _). unfold is_submit, oseg. cbn [sm_cmd]. rewrite C4. reflexivity. Qed.

  (* phases only move forward: statements about the other segments survive an update of segment i *)
  Ltac other_seg q' i j Hne := unfold q'; rewrite (qupd_other _ i _ j Hne).

  (* segment i is stored after its write; the first segment starts a new status cell whatever the store holds *)
  Lemma o_put_step0 s q lr i :
    QI0 s q lr -> (i < k)%nat -> q i = QNot -> (i <> 0%nat -> q 0%nat <> QNot) ->
    (i <> 0%nat -> dget r (c_cur (h_corr s)) = Some K) ->
    exists s', hstep s (HPut (oseg i)) = (s', []) /\ QI0 s' (qupd q i QSending) lr /\ dget r (c_cur (h_corr s')) = Some K.
  Proof.
    intros (Ha & Hb & Hc & Hl & N1 & N2 & N3 & Hff) Hi Hp Hord Hcur.
    cbn [hstep]. eexists. split; [reflexivity|].
    set (q' := qupd q i QSending).
    assert (all_processed q = false) as Fp by (apply (oforallb_false _ i Hi); rewrite Hp; reflexivity).
    assert (forallb (fun j => is_qnot (q' j)) oidx = false) as Fn' by (apply (oforallb_false _ i Hi); unfold q'; rewrite qupd_same; reflexivity).
    assert (all_processed q' = false) as Fp' by (apply (oforallb_false _ i Hi); unfold q'; rewrite qupd_same; reflexivity).
    assert (forall j, (j < k)%nat -> answered (q' j) = answered (q j)) as Hans.
    { intros j Hj. unfold q'. destruct (Nat.eq_dec j i) as [->|Hne]; [rewrite qupd_same, Hp; reflexivity|rewrite qupd_other by exact Hne; reflexivity]. }
    assert (forall j, (j < k)%nat -> (q' j = QFail <-> q j = QFail)) as Hfl.
    { intros j Hj. unfold q'. destruct (Nat.eq_dec j i) as [->|Hne]; [rewrite qupd_same, Hp; split; discriminate|rewrite qupd_other by exact Hne; reflexivity]. }
    assert (exists cell', ss_status cell' = ostatus q /\ ss_orig cell' = oseg 0 /\ ss_last_resp cell' = lr /\
              exists cur', dget r cur' = Some K /\
              put_store (h_corr s) 0%Q (oseg i) (h_next s) =
              {| c_store := dset (c_store (h_corr s)) (sq i) {| e_at := 0%Q; e_msg := oseg i; e_id := h_next s |};
                 c_seg := dset (c_seg (h_corr s)) (sq i) (K, Z.of_nat i + 1);
                 c_stat := dset (c_stat (h_corr s)) K (set_status cell' (Z.of_nat i + 1) STATUS_SENDING);
                 c_cur := cur'; c_ttl := c_ttl (h_corr s) |}) as (cell' & Hst & Hor & Hlr & cur' & Hcur' & Eput).
    { destruct (Nat.eq_dec i 0) as [E0|N0].
      - subst i. exists (fresh_cell (oseg 0%nat) (Z.of_nat k)). unfold fresh_cell. cbn [ss_status ss_orig ss_last_resp]. rewrite Nat2Z.id.
        split; [apply ofresh; intros j Hj; apply (Hff Hp j Hj)|]. split; [reflexivity|].
        split; [destruct Hl as (Hl1 & _); symmetry; apply Hl1; intros j Hj; rewrite (Hff Hp j Hj); reflexivity|].
        exists (dset (c_cur (h_corr s)) r K). split; [apply dget_dset_same|].
        rewrite (put_store_first (h_corr s) 0%Q (oseg 0%nat) (h_next s) r (Z.of_nat 0 + 1) (Z.of_nat k) (oseg_is_submit 0%nat) eq_refl ltac:(lia) ltac:(lia)).
        unfold fresh_cell. rewrite Nat2Z.id. reflexivity.
      - assert (forallb (fun j => is_qnot (q j)) oidx = false) as Fn.
        { apply (oforallb_false _ 0%nat ltac:(lia)). specialize (Hord N0). destruct (q 0%nat); try reflexivity. contradiction. }
        rewrite Fn, Fp in Hc. cbn [andb] in Hc. destruct Hc as (cell & Hcell & H1 & H2 & H3). exists cell.
        split; [exact H1|]. split; [exact H2|]. split; [exact H3|].
        exists (c_cur (h_corr s)). split; [exact (Hcur N0)|].
        rewrite (put_store_join (h_corr s) 0%Q (oseg i) (h_next s) r (Z.of_nat i + 1) (Z.of_nat k) K cell (oseg_is_submit i) eq_refl ltac:(lia) ltac:(lia) (Hcur N0) Hcell).
        reflexivity. }
    rewrite Eput. split; [|cbn [h_corr c_cur]; exact Hcur'].
    unfold QI0. cbn [h_corr h_rlog c_store c_seg c_stat].
    split.
    { intros j Hj. unfold q'. destruct (Nat.eq_dec j i) as [->|Hne].
      - rewrite qupd_same. eexists. split; [apply dget_dset_same|reflexivity].
      - rewrite qupd_other by exact Hne.
        assert (sq j <> sq i) as Hk2 by (intros E; apply Hne; apply sq_inj; auto).
        pose proof (Ha j Hj) as Haj. destruct (q j); rewrite dget_dset_other by exact Hk2; exact Haj. }
    split.
    { intros j Hj. unfold q'. destruct (Nat.eq_dec j i) as [->|Hne].
      - rewrite qupd_same. apply dget_dset_same.
      - rewrite qupd_other by exact Hne. rewrite dget_dset_other by (intros E; apply Hne; apply sq_inj; auto). apply Hb, Hj. }
    split.
    { rewrite Fn', Fp'. cbn [andb]. eexists. split; [apply dget_dset_same|]. unfold set_status. cbn [ss_status ss_orig ss_last_resp].
      split; [|split; [exact Hor|exact Hlr]]. rewrite Hst. change STATUS_SENDING with (qcode QSending). apply (ostatus_set q i QSending Hi). }
    split.
    { destruct Hl as (Hl1 & Hl2 & Hl3 & Hl4 & Hl5 & Hl6). split; [|split; [|split; [|split; [|split]]]].
      - intros Hn. apply Hl1. intros j Hj. rewrite <- (Hans j Hj). apply Hn, Hj.
      - intros (j & Hj & Hjf). apply Hl2. exists j. split; [exact Hj|apply (Hfl j Hj); exact Hjf].
      - intros Hn. apply Hl3. intros j Hj Hjf. apply (Hn j Hj). apply (Hfl j Hj). exact Hjf.
      - intros (j & Hj & Hja). apply Hl4. exists j. split; [exact Hj|rewrite <- (Hans j Hj); exact Hja].
      - exact Hl5.
      - exact Hl6. }
    split; [apply dkeys_dset_NoDup; exact N1|]. split; [apply dkeys_dset_NoDup; exact N2|]. split; [apply dkeys_dset_NoDup; exact N3|].
    intros Hz j Hj. unfold q' in Hz. unfold qupd in Hz. destruct (Nat.eqb 0 i) eqn:E0; [discriminate|].
    apply Nat.eqb_neq in E0. exfalso. apply (Hord ltac:(lia)). exact Hz.
  Qed.

  (* get(response) for a response to a stored segment *)
  Definition cell_after (cell : segstat) (sseq : Z) (r' : resp) : segstat :=
    if is_fail r' then set_last_resp (set_status cell sseq STATUS_FAILED) r'
    else let s1 := set_status cell sseq STATUS_SENT in
         match ss_last_resp s1 with Some _ => s1 | None => set_last_resp s1 r' end.

  Lemma get_pop_segment c r' e ref sseq cell :
    dget (rs_seq r') (c_store c) = Some e -> is_submit (e_msg e) = true ->
    (rs_cmd r' = SmppCommand_SUBMIT_SM_RESP \/ rs_cmd r' = SmppCommand_GENERIC_NACK) ->
    dget (rs_seq r') (c_seg c) = Some (ref, sseq) -> dget ref (c_stat c) = Some cell ->
    get_pop c r' = (with_stat (with_store c (ddel (rs_seq r') (c_store c))) (dset (c_stat c) ref (cell_after cell sseq r')), Some e).
  Proof.
    intros Hs Hm Hcmd Hg Hc. unfold get_pop. rewrite Hs, (answers_submit r' (e_msg e) Hm Hcmd). cbn [negb]. rewrite Hm.
    cbn [with_store c_seg c_stat]. rewrite Hg, Hc.
    unfold cell_after, is_fail.
    destruct (rs_cmd r' =? SmppCommand_GENERIC_NACK); cbn [orb]; [reflexivity|].
    destruct (rs_status r' =? SmppCommandStatus_ESME_ROK); cbn [negb]; reflexivity.
  Qed.

  Definition resp_out (q' : nat -> qphase) (lr' : option resp) : list hout :=
    if all_processed q' then
      if final_code q' =? STATUS_EXPIRED then [HSendError log; HRaw]
      else match lr' with
           | Some x => [HResp (rs_uid x) log (rs_cmd x) (rs_status x)]
           | None => []
           end
    else [HRaw].

  (* the SMSC answers segment i: accepted, rejected or generic_nack *)
  Lemma o_resp_step0 s q lr i r' mid :
    QI0 s q lr -> (i < k)%nat -> q i = QSending -> rs_seq r' = sq i ->
    (rs_cmd r' = SmppCommand_SUBMIT_SM_RESP \/ rs_cmd r' = SmppCommand_GENERIC_NACK) ->
    let q' := qupd q i (if is_fail r' then QFail else QOk) in
    let lr' := lr_after lr r' in
    exists s', handle_response s r' mid = (s', resp_out q' lr') /\ QI0 s' q' lr'.
  Proof.
    intros (Ha & Hb & Hc & Hl & N1 & N2 & N3 & Hff) Hi Hp Hseq Hcmd q' lr'.
    destruct outcome_constants as (C4 & CR & CN & C0 & CS & CF & CE & CT & HmR & HmN & Hlk).
    pose proof (Ha i Hi) as Hai. rewrite Hp in Hai. destruct Hai as (e & Hge & Hem).
    pose proof (Hb i Hi) as Hbi. rewrite Hp in Hbi.
    assert (forallb (fun j => is_qnot (q j)) oidx = false) as Fn by (apply (oforallb_false _ i Hi); rewrite Hp; reflexivity).
    assert (all_processed q = false) as Fp by (apply (oforallb_false _ i Hi); rewrite Hp; reflexivity).
    rewrite Fn, Fp in Hc. cbn [andb] in Hc. destruct Hc as (cell & Hcell & Hst & Hor & Hlr).
    set (cell' := cell_after cell (Z.of_nat i + 1) r').
    assert (ss_status cell' = ostatus q' /\ ss_orig cell' = oseg 0 /\ ss_last_resp cell' = lr') as (Hst' & Hor' & Hlr').
    { unfold cell', cell_after, q', lr', lr_after. destruct (is_fail r').
      - cbn [set_last_resp set_status ss_status ss_orig ss_last_resp]. rewrite Hst. split; [|split; [exact Hor|reflexivity]].
        change STATUS_FAILED with (qcode QFail). apply (ostatus_set q i QFail Hi).
      - cbn [set_status ss_last_resp]. rewrite Hlr. destruct lr as [x|]; cbn [set_last_resp set_status ss_status ss_orig ss_last_resp];
          (split; [rewrite Hst; change STATUS_SENT with (qcode QOk); apply (ostatus_set q i QOk Hi)|split; [exact Hor|first [exact Hlr|reflexivity]]]). }
    assert (forallb (fun j => is_qnot (q' j)) oidx = false) as Fn'
      by (apply (oforallb_false _ i Hi); unfold q'; rewrite qupd_same; destruct (is_fail r'); reflexivity).
    (* the rlog ghost and the identity of the last response *)
    assert (lr_okq q' lr' (dset (h_rlog s) (rs_uid r') log)) as Hl'.
    { destruct Hl as (Hl1 & Hl2 & Hl3 & Hl4 & Hl5 & Hl6). unfold lr_okq, lr', lr_after, q'.
      split; [|split; [|split; [|split; [|split]]]].
      - intros Hn. specialize (Hn i Hi). rewrite qupd_same in Hn. destruct (is_fail r'); discriminate.
      - intros (j & Hj & Hjf). destruct (is_fail r') eqn:Ef; [eexists; split; [reflexivity|exact Ef]|].
        destruct (Nat.eq_dec j i) as [->|Hne]; [rewrite qupd_same in Hjf; discriminate|]. rewrite qupd_other in Hjf by exact Hne.
        destruct (Hl2 (ex_intro _ j (conj Hj Hjf))) as (x & -> & Hx). eexists. split; [reflexivity|exact Hx].
      - intros Hn x Hx. destruct (is_fail r') eqn:Ef.
        + exfalso. apply (Hn i Hi). rewrite qupd_same. reflexivity.
        + assert (forall j, (j < k)%nat -> q j <> QFail) as Hn0.
          { intros j Hj Hjf. destruct (Nat.eq_dec j i) as [->|Hne]; [rewrite Hp in Hjf; discriminate|].
            apply (Hn j Hj). rewrite qupd_other by exact Hne. exact Hjf. }
          destruct lr as [y|]; injection Hx as <-; [apply (Hl3 Hn0 y eq_refl)|exact Ef].
      - intros _. destruct (is_fail r'); [discriminate|]. destruct lr; discriminate.
      - intros x Hx. destruct (is_fail r').
        + injection Hx as <-. apply dget_dset_same.
        + destruct lr as [y|]; injection Hx as <-; [|apply dget_dset_same].
          destruct (Z.eq_dec (rs_uid y) (rs_uid r')) as [E|E]; [rewrite E; apply dget_dset_same|].
          rewrite dget_dset_other by exact E. apply (Hl5 y eq_refl).
      - intros x Hx. destruct (is_fail r'); [injection Hx as <-; exact Hcmd|].
        destruct lr as [y|]; injection Hx as <-; [apply (Hl6 y eq_refl)|exact Hcmd]. }
    assert (forall j, (j < k)%nat -> j <> i -> q' j = q j) as Hoth by (intros j Hj Hne; unfold q'; apply qupd_other; exact Hne).
    assert (q' i = (if is_fail r' then QFail else QOk)) as Hqi by (unfold q'; apply qupd_same).
    (* run the handler *)
    assert (is_submit (e_msg e) = true) as Hsub by (rewrite Hem; apply oseg_is_submit).
    assert (dget (rs_seq r') (c_store (h_corr s)) = Some e) as Hge' by (rewrite Hseq; exact Hge).
    assert (dget (rs_seq r') (c_seg (h_corr s)) = Some (K, Z.of_nat i + 1)) as Hbi' by (rewrite Hseq; exact Hbi).
    pose proof (get_pop_segment (h_corr s) r' e K (Z.of_nat i + 1) cell Hge' Hsub Hcmd Hbi' Hcell) as Hgp. fold cell' in Hgp.
    set (c1 := with_stat (with_store (h_corr s) (ddel (rs_seq r') (c_store (h_corr s)))) (dset (c_stat (h_corr s)) K cell')) in *.
    assert (get_segmented c1 (rs_seq r') false = (fst (cumulated c1 K cell'), Some cell', snd (cumulated c1 K cell'))) as Hgs.
    { unfold get_segmented. cbn [c1 with_stat with_store c_seg c_stat]. rewrite Hbi', dget_dset_same.
      destruct (cumulated _ K cell'). reflexivity. }
    (* the state after the handler, whatever the branch *)
    assert (forall d n t nt,
              QI0 {| h_corr := fst (cumulated c1 K cell'); h_deliv := d; h_next := n; h_thr := t; h_nonthr := nt;
                    h_rlog := dset (h_rlog s) (rs_uid r') log |} q' lr') as Hstate.
    { intros d n t nt. unfold QI0. cbn [h_corr h_rlog].
      assert (c_store (fst (cumulated c1 K cell')) = ddel (sq i) (c_store (h_corr s))
              /\ c_seg (fst (cumulated c1 K cell')) = c_seg (h_corr s)) as [Est Esg].
      { unfold cumulated. destruct (map snd (ss_status cell')) as [|v vs]; [split; cbn [fst c1 with_stat with_store c_store c_seg]; rewrite ?Hseq; reflexivity|].
        destruct (_ || _); cbn [fst c1 with_stat with_store c_store c_seg]; rewrite ?Hseq; split; reflexivity. }
      rewrite Est, Esg.
      split.
      { intros j Hj. destruct (Nat.eq_dec j i) as [->|Hne].
        - rewrite Hqi. destruct (is_fail r'); apply dget_ddel_same; exact N3.
        - rewrite (Hoth j Hj Hne). assert (sq j <> sq i) as Hk2 by (intros E; apply Hne; apply sq_inj; auto).
          pose proof (Ha j Hj) as Haj. destruct (q j); rewrite dget_ddel_other by exact Hk2; exact Haj. }
      split.
      { intros j Hj. destruct (Nat.eq_dec j i) as [->|Hne]; [rewrite Hqi; destruct (is_fail r'); exact Hbi|].
        rewrite (Hoth j Hj Hne). apply Hb, Hj. }
      split.
      { rewrite Fn'. destruct (all_processed q') eqn:Fp'.
        - rewrite (cumulated_done_o c1 cell' q' Fp' Hst'). cbn [andb].
          destruct (final_code q' =? STATUS_SENT) eqn:Esent; cbn [negb fst].
          + exists cell'. cbn [c1 with_stat c_stat]. split; [apply dget_dset_same|]. split; [exact Hst'|split; [exact Hor'|exact Hlr']].
          + cbn [with_stat c_stat c1]. apply dget_ddel_same. apply dkeys_dset_NoDup. exact N2.
        - cbn [andb].
          assert (exists j, (j < k)%nat /\ processed (q' j) = false) as (j & Hj & Hjp).
          { unfold all_processed in Fp'. destruct (forallb_false_ex _ _ Fp') as (j & Hj & Hjp). exists j. split; [apply In_oidx; exact Hj|exact Hjp]. }
          rewrite (cumulated_open_o c1 cell' q' j Hj Hjp Hst'). cbn [fst].
          exists cell'. cbn [c1 with_stat c_stat]. split; [apply dget_dset_same|]. split; [exact Hst'|split; [exact Hor'|exact Hlr']]. }
      split; [exact Hl'|].
      split; [exact N1|]. split.
      { unfold cumulated. destruct (map snd (ss_status cell')) as [|v vs]; [cbn [fst c1 with_stat c_stat]; apply dkeys_dset_NoDup; exact N2|].
        destruct (_ || _); cbn [fst c1 with_stat c_stat]; [apply dkeys_dset_NoDup; exact N2|apply dkeys_ddel_NoDup, dkeys_dset_NoDup; exact N2]. }
      split; [apply dkeys_ddel_NoDup; exact N3|].
      intros Hz j Hj. destruct (Nat.eq_dec 0 i) as [E0|N0]; [subst i; rewrite Hqi in Hz; destruct (is_fail r'); discriminate|].
      rewrite (Hoth 0%nat ltac:(lia) N0) in Hz. specialize (Hff Hz i Hi). rewrite Hp in Hff. discriminate. }
    (* the output *)
    assert (snd (cumulated c1 K cell') = if all_processed q' then final_code q' else STATUS_SENDING) as Hcode.
    { destruct (all_processed q') eqn:Fp'.
      - rewrite (cumulated_done_o c1 cell' q' Fp' Hst'). reflexivity.
      - unfold all_processed in Fp'. destruct (forallb_false_ex _ _ Fp') as (j & Hj & Hjp). apply In_oidx in Hj.
        rewrite (cumulated_open_o c1 cell' q' j Hj Hjp Hst'). reflexivity. }
    assert (lr' <> None) as Hlrn by (unfold lr', lr_after; destruct (is_fail r'); [discriminate|destruct lr; discriminate]).
    assert (forall x, lr' = Some x -> dget (rs_uid x) (dset (h_rlog s) (rs_uid r') log) = Some log) as Hlog by (destruct Hl' as (_ & _ & _ & _ & H5 & _); exact H5).
    assert (final_code q' <> STATUS_SENDING) as Hfs.
    { unfold final_code. destruct (existsb _ oidx); [rewrite CF, CS; lia|]. destruct (existsb _ oidx); [rewrite CE, CS; lia|rewrite CT, CS; lia]. }
    unfold handle_response.
    destruct Hcmd as [Ecmd|Ecmd]; rewrite Ecmd.
    - (* submit_sm_resp *)
      rewrite CR, HmR. cbn [negb]. rewrite CN. change (2147483652 =? 2147483648) with false. cbv iota. rewrite Hlk.
      rewrite Hgp. cbv beta iota. rewrite Hem. cbn [oseg sm_cmd sm_log]. rewrite C4. change (4 =? 4) with true. cbn [negb]. cbv iota.
      change ((2147483652 =? 2147483652) || (2147483652 =? 2147483648)) with true. cbn [andb].
      destruct (mem (rs_status r') throttled_statuses); cbv beta iota zeta;
        cbn [h_corr h_deliv h_next h_thr h_nonthr h_rlog]; rewrite Hgs; cbv beta iota; rewrite Hcode; unfold resp_out.
      all: destruct (all_processed q');
        [ replace (final_code q' =? STATUS_SENDING) with false by (symmetry; apply Z.eqb_neq; exact Hfs);
          destruct (final_code q' =? STATUS_EXPIRED);
          [ eexists; split; [rewrite Hor'; cbn [oseg sm_log]; reflexivity|apply Hstate]
          | rewrite Hlr'; destruct lr' as [x|]; [rewrite (Hlog x eq_refl); eexists; split; [reflexivity|apply Hstate]|contradiction] ]
        | rewrite Z.eqb_refl; eexists; split; [reflexivity|apply Hstate] ].
    - (* generic_nack *)
      rewrite CN, HmN. cbn [negb]. change (2147483648 =? 2147483648) with true. cbv iota.
      rewrite Hgp. cbv beta iota. rewrite Hem. cbn [oseg sm_cmd sm_log]. rewrite C4. change (4 =? 4) with true.
      rewrite CR. change ((2147483648 =? 2147483652) || (2147483648 =? 2147483648)) with true. cbn [andb].
      change (2147483648 =? 2147483652) with false. cbn [andb].
      destruct (mem (rs_status r') throttled_statuses); cbv beta iota zeta;
        cbn [h_corr h_deliv h_next h_thr h_nonthr h_rlog]; rewrite Hgs; cbv beta iota; rewrite Hcode; unfold resp_out.
      all: destruct (all_processed q');
        [ replace (final_code q' =? STATUS_SENDING) with false by (symmetry; apply Z.eqb_neq; exact Hfs);
          destruct (final_code q' =? STATUS_EXPIRED);
          [ eexists; split; [rewrite Hor'; cbn [oseg sm_log]; reflexivity|apply Hstate]
          | rewrite Hlr'; destruct lr' as [x|]; [rewrite (Hlog x eq_refl); eexists; split; [reflexivity|apply Hstate]|contradiction] ]
        | rewrite Z.eqb_refl; eexists; split; [reflexivity|apply Hstate] ].
  Qed.

  (* the stored request of segment i times out *)
  Lemma o_expire_step0 s q lr i :
    QI0 s q lr -> (i < k)%nat -> q i = QSending ->
    let q' := qupd q i QExp in
    exists s', hstep s (HExpire (sq i)) = (s', if all_processed q' then [HSendError log] else []) /\ QI0 s' q' lr.
  Proof.
    intros (Ha & Hb & Hc & Hl & N1 & N2 & N3 & Hff) Hi Hp q'.
    destruct outcome_constants as (C4 & CR & CN & C0 & CS & CF & CE & CT & HmR & HmN & Hlk).
    pose proof (Ha i Hi) as Hai. rewrite Hp in Hai. destruct Hai as (e & Hge & Hem).
    pose proof (Hb i Hi) as Hbi. rewrite Hp in Hbi.
    assert (forallb (fun j => is_qnot (q j)) oidx = false) as Fn by (apply (oforallb_false _ i Hi); rewrite Hp; reflexivity).
    assert (all_processed q = false) as Fp by (apply (oforallb_false _ i Hi); rewrite Hp; reflexivity).
    rewrite Fn, Fp in Hc. cbn [andb] in Hc. destruct Hc as (cell & Hcell & Hst & Hor & Hlr).
    set (cell' := set_status cell (Z.of_nat i + 1) STATUS_EXPIRED).
    assert (ss_status cell' = ostatus q') as Hst'.
    { unfold cell', set_status. cbn [ss_status]. rewrite Hst. change STATUS_EXPIRED with (qcode QExp). apply (ostatus_set q i QExp Hi). }
    assert (forall j, (j < k)%nat -> j <> i -> q' j = q j) as Hoth by (intros j Hj Hne; unfold q'; apply qupd_other; exact Hne).
    assert (q' i = QExp) as Hqi by (unfold q'; apply qupd_same).
    assert (forallb (fun j => is_qnot (q' j)) oidx = false) as Fn' by (apply (oforallb_false _ i Hi); rewrite Hqi; reflexivity).
    assert (final_code q' <> STATUS_SENT /\ ((final_code q' =? STATUS_EXPIRED) || (final_code q' =? STATUS_FAILED) = true)) as [Hns Hef].
    { unfold final_code. destruct (existsb (fun j => is_qfail (q' j)) oidx).
      - split; [rewrite CF, CT; lia|]. rewrite Z.eqb_refl. apply orb_true_r.
      - rewrite (oexistsb_true (fun j => is_qexp (q' j)) i Hi) by (rewrite Hqi; reflexivity). split; [rewrite CE, CT; lia|]. rewrite Z.eqb_refl. reflexivity. }
    cbn [hstep]. unfold expire_one. rewrite Hge. unfold expired. rewrite Hem, oseg_is_submit. cbn [oseg sm_seq with_store c_seg c_stat with_seg]. rewrite Hbi.
    cbn [with_seg c_stat]. rewrite Hcell. fold cell'.
    set (c2 := with_stat (with_seg (with_store (h_corr s) (ddel (sq i) (c_store (h_corr s)))) (ddel (sq i) (c_seg (h_corr s))))
                         (dset (c_stat (h_corr s)) K cell')).
    assert (lr_okq q' lr (h_rlog s)) as Hl'.
    { destruct Hl as (Hl1 & Hl2 & Hl3 & Hl4 & Hl5 & Hl6).
      assert (forall j, (j < k)%nat -> answered (q' j) = answered (q j)) as Hans.
      { intros j Hj. destruct (Nat.eq_dec j i) as [->|Hne]; [rewrite Hqi, Hp; reflexivity|rewrite (Hoth j Hj Hne); reflexivity]. }
      assert (forall j, (j < k)%nat -> (q' j = QFail <-> q j = QFail)) as Hfl.
      { intros j Hj. destruct (Nat.eq_dec j i) as [->|Hne]; [rewrite Hqi, Hp; split; discriminate|rewrite (Hoth j Hj Hne); reflexivity]. }
      split; [|split; [|split; [|split; [|split]]]].
      - intros Hn. apply Hl1. intros j Hj. rewrite <- (Hans j Hj). apply Hn, Hj.
      - intros (j & Hj & Hjf). apply Hl2. exists j. split; [exact Hj|apply (Hfl j Hj); exact Hjf].
      - intros Hn. apply Hl3. intros j Hj Hjf. apply (Hn j Hj). apply (Hfl j Hj). exact Hjf.
      - intros (j & Hj & Hja). apply Hl4. exists j. split; [exact Hj|rewrite <- (Hans j Hj); exact Hja].
      - exact Hl5.
      - exact Hl6. }
    assert (forall cfin, c_store cfin = ddel (sq i) (c_store (h_corr s)) -> c_seg cfin = ddel (sq i) (c_seg (h_corr s)) ->
              (if all_processed q' then dget K (c_stat cfin) = None
               else exists cl, dget K (c_stat cfin) = Some cl /\ ss_status cl = ostatus q' /\ ss_orig cl = oseg 0 /\ ss_last_resp cl = lr) ->
              NoDup (dkeys (c_stat cfin)) ->
              QI0 (with_corr s cfin) q' lr) as Hfin.
    { intros cfin Est Esg Hcl Hnd. unfold QI0, with_corr. cbn [h_corr h_rlog]. rewrite Est, Esg.
      split.
      { intros j Hj. destruct (Nat.eq_dec j i) as [->|Hne]; [rewrite Hqi; apply dget_ddel_same; exact N3|].
        rewrite (Hoth j Hj Hne). assert (sq j <> sq i) as Hk2 by (intros E; apply Hne; apply sq_inj; auto).
        pose proof (Ha j Hj) as Haj. destruct (q j); rewrite dget_ddel_other by exact Hk2; exact Haj. }
      split.
      { intros j Hj. destruct (Nat.eq_dec j i) as [->|Hne]; [rewrite Hqi; apply dget_ddel_same; exact N1|].
        rewrite (Hoth j Hj Hne). rewrite dget_ddel_other by (intros E; apply Hne; apply sq_inj; auto). apply Hb, Hj. }
      split.
      { rewrite Fn'. destruct (all_processed q'); cbn [andb].
        - replace (final_code q' =? STATUS_SENT) with false by (symmetry; apply Z.eqb_neq; exact Hns). cbn [negb]. exact Hcl.
        - exact Hcl. }
      split; [exact Hl'|]. split; [apply dkeys_ddel_NoDup; exact N1|]. split; [exact Hnd|]. split; [apply dkeys_ddel_NoDup; exact N3|].
      intros Hz j Hj. destruct (Nat.eq_dec 0 i) as [E0|N0]; [subst i; rewrite Hqi in Hz; discriminate|].
      rewrite (Hoth 0%nat ltac:(lia) N0) in Hz. specialize (Hff Hz i Hi). rewrite Hp in Hff. discriminate. }
    destruct (all_processed q') eqn:Fp'.
    - rewrite (cumulated_done_o c2 cell' q' Fp' Hst').
      replace (final_code q' =? STATUS_SENT) with false by (symmetry; apply Z.eqb_neq; exact Hns). rewrite Hef.
      eexists. split; [unfold cell', set_status; cbn [ss_orig]; rewrite Hor; cbn [oseg sm_log]; reflexivity|].
      apply Hfin; cbn [c2 with_stat with_seg with_store c_store c_seg c_stat]; try reflexivity.
      + apply dget_ddel_same. apply dkeys_dset_NoDup. exact N2.
      + apply dkeys_ddel_NoDup, dkeys_dset_NoDup. exact N2.
    - unfold all_processed in Fp'. destruct (forallb_false_ex _ _ Fp') as (j & Hj & Hjp). apply In_oidx in Hj.
      rewrite (cumulated_open_o c2 cell' q' j Hj Hjp Hst').
      replace ((STATUS_SENDING =? STATUS_EXPIRED) || (STATUS_SENDING =? STATUS_FAILED)) with false by (rewrite CS, CE, CF; reflexivity).
      eexists. split; [reflexivity|].
      apply Hfin; cbn [c2 with_stat with_seg with_store c_store c_seg c_stat]; try reflexivity.
      + exists cell'. split; [apply dget_dset_same|]. split; [exact Hst'|]. unfold cell', set_status. cbn [ss_orig ss_last_resp]. split; [exact Hor|exact Hlr].
      + apply dkeys_dset_NoDup. exact N2.
  Qed.

  (* ---- any admissible interleaving of the message's events ---- *)
  (* ---- the invariant with the reference -> key map: while segments remain to be stored, the message being sent under
     reference r is this one ---- *)
  Definition QI (s : hstate) (q : nat -> qphase) (lr : option resp) : Prop :=
    QI0 s q lr /\ (q 0%nat <> QNot -> (exists j, (j < k)%nat /\ q j = QNot) -> dget r (c_cur (h_corr s)) = Some K).

  Lemma cur_kept (q q' : nat -> qphase) i p (c c' : dict Z) :
    c' = c -> (i < k)%nat -> q i <> QNot -> p <> QNot -> q' = qupd q i p ->
    (q 0%nat <> QNot -> (exists j, (j < k)%nat /\ q j = QNot) -> dget r c = Some K) ->
    (q' 0%nat <> QNot -> (exists j, (j < k)%nat /\ q' j = QNot) -> dget r c' = Some K).
  Proof.
    intros -> Hi Hqi Hp -> Hcur H0 (j & Hj & Hpj).
    destruct (Nat.eq_dec j i) as [->|Hne]; [rewrite qupd_same in Hpj; contradiction|].
    rewrite qupd_other in Hpj by exact Hne. apply Hcur; [|exists j; split; assumption].
    destruct (Nat.eq_dec 0 i) as [<-|N0]; [exact Hqi|]. rewrite qupd_other in H0 by exact N0. exact H0.
  Qed.

  Lemma o_put_step s q lr i :
    QI s q lr -> (i < k)%nat -> q i = QNot -> (i <> 0%nat -> q 0%nat <> QNot) ->
    exists s', hstep s (HPut (oseg i)) = (s', []) /\ QI s' (qupd q i QSending) lr.
  Proof.
    intros [HQ Hcur] Hi Hp Hord.
    assert (i <> 0%nat -> dget r (c_cur (h_corr s)) = Some K) as Hc.
    { intros N0. apply Hcur; [apply Hord; exact N0|]. exists i. split; assumption. }
    destruct (o_put_step0 s q lr i HQ Hi Hp Hord Hc) as (s' & Hs & HQ' & Hcur').
    exists s'. split; [exact Hs|]. split; [exact HQ'|]. intros _ _. exact Hcur'.
  Qed.

  Lemma o_resp_step s q lr i r' mid :
    QI s q lr -> (i < k)%nat -> q i = QSending -> rs_seq r' = sq i ->
    (rs_cmd r' = SmppCommand_SUBMIT_SM_RESP \/ rs_cmd r' = SmppCommand_GENERIC_NACK) ->
    let q' := qupd q i (if is_fail r' then QFail else QOk) in
    let lr' := lr_after lr r' in
    exists s', handle_response s r' mid = (s', resp_out q' lr') /\ QI s' q' lr'.
  Proof.
    intros [HQ Hcur] Hi Hp Hseq Hcmd q' lr'. destruct (o_resp_step0 s q lr i r' mid HQ Hi Hp Hseq Hcmd) as (s' & Hs & HQ').
    exists s'. split; [exact Hs|]. split; [exact HQ'|].
    pose proof (response_cur s r' mid) as Hc. rewrite Hs in Hc. cbn [fst] in Hc.
    apply (cur_kept q q' i (if is_fail r' then QFail else QOk) _ _ Hc Hi); [rewrite Hp; discriminate|destruct (is_fail r'); discriminate|reflexivity|exact Hcur].
  Qed.

  Lemma o_expire_step s q lr i :
    QI s q lr -> (i < k)%nat -> q i = QSending ->
    let q' := qupd q i QExp in
    exists s', hstep s (HExpire (sq i)) = (s', if all_processed q' then [HSendError log] else []) /\ QI s' q' lr.
  Proof.
    intros [HQ Hcur] Hi Hp q'. destruct (o_expire_step0 s q lr i HQ Hi Hp) as (s' & Hs & HQ').
    exists s'. split; [exact Hs|]. split; [exact HQ'|].
    pose proof (expire_cur s (sq i)) as Hc. cbn [hstep] in Hs. rewrite Hs in Hc. cbn [fst] in Hc.
    apply (cur_kept q q' i QExp _ _ Hc Hi); [rewrite Hp; discriminate|discriminate|reflexivity|exact Hcur].
  Qed.

  Inductive oev := OPut (i : nat) | OResp (i : nat) (r' : resp) (mid : Z) | OExpire (i : nat).

  Definition oconc (g : oev) : hevent :=
    match g with OPut i => HPut (oseg i) | OResp _ r' mid => HResponse r' mid | OExpire i => HExpire (sq i) end.

  Definition oenabled (q : nat -> qphase) (g : oev) : Prop :=
    match g with
    | OPut i => (i < k)%nat /\ q i = QNot /\ (i <> 0%nat -> q 0%nat <> QNot)          (* segments are stored in the order sent *)
    | OResp i r' _ => (i < k)%nat /\ q i = QSending /\ rs_seq r' = sq i
                      /\ (rs_cmd r' = SmppCommand_SUBMIT_SM_RESP \/ rs_cmd r' = SmppCommand_GENERIC_NACK)
    | OExpire i => (i < k)%nat /\ q i = QSending
    end.

  Definition oafter (q : nat -> qphase) (lr : option resp) (g : oev) : (nat -> qphase) * option resp :=
    match g with
    | OPut i => (qupd q i QSending, lr)
    | OResp i r' _ => (qupd q i (if is_fail r' then QFail else QOk), lr_after lr r')
    | OExpire i => (qupd q i QExp, lr)
    end.

  (* what the hooks must see for each event *)
  Definition oexpected (q : nat -> qphase) (lr : option resp) (g : oev) : list hout :=
    let '(q', lr') := oafter q lr g in
    match g with
    | OPut _ => []
    | OResp _ _ _ => resp_out q' lr'
    | OExpire _ => if all_processed q' then [HSendError log] else []
    end.

  Fixpoint ovalid (q : nat -> qphase) (lr : option resp) (gs : list oev) : Prop :=
    match gs with [] => True | g :: t => oenabled q g /\ ovalid (fst (oafter q lr g)) (snd (oafter q lr g)) t end.
  Fixpoint ospec (q : nat -> qphase) (lr : option resp) (gs : list oev) : list (list hout) :=
    match gs with [] => [] | g :: t => oexpected q lr g :: ospec (fst (oafter q lr g)) (snd (oafter q lr g)) t end.
  Fixpoint ofinal (q : nat -> qphase) (lr : option resp) (gs : list oev) : (nat -> qphase) * option resp :=
    match gs with [] => (q, lr) | g :: t => ofinal (fst (oafter q lr g)) (snd (oafter q lr g)) t end.

  Theorem o_run : forall gs s q lr, QI s q lr -> ovalid q lr gs -> hrun_each s (map oconc gs) = ospec q lr gs.
  Proof.
    induction gs as [|g t IH]; intros s q lr HQ Hv; [reflexivity|].
    cbn [ovalid] in Hv. destruct Hv as [Hen Hv]. cbn [map ospec hrun_each].
    destruct g as [i|i r' mid|i]; cbn [oenabled] in Hen; cbn [oconc oexpected oafter fst snd] in *.
    - destruct Hen as (Hi & Hp & Hord). destruct (o_put_step s q lr i HQ Hi Hp Hord) as (s' & Hs & HQ').
      rewrite Hs. cbn [fst snd]. f_equal. apply (IH s' _ _ HQ' Hv).
    - destruct Hen as (Hi & Hp & Hsq & Hcmd). destruct (o_resp_step s q lr i r' mid HQ Hi Hp Hsq Hcmd) as (s' & Hs & HQ').
      cbn [hstep]. rewrite Hs. cbn [fst snd]. f_equal. apply (IH s' _ _ HQ' Hv).
    - destruct Hen as (Hi & Hp). destruct (o_expire_step s q lr i HQ Hi Hp) as (s' & Hs & HQ').
      rewrite Hs. cbn [fst snd]. f_equal. apply (IH s' _ _ HQ' Hv).
  Qed.

  Lemma QI_init : QI hinit (fun _ => QNot) None.
  Proof.
    split; [|intros H; contradiction H; reflexivity].
    unfold QI0, hinit, corr_init. cbn [h_corr h_rlog c_store c_seg c_stat].
    split; [intros i _; reflexivity|]. split; [intros i _; reflexivity|]. split.
    - assert (forallb (fun i : nat => is_qnot QNot) oidx = true) as -> by (apply forallb_forall; reflexivity). exact I.
    - split.
      + unfold lr_okq. split; [reflexivity|]. split; [intros (i & _ & H); discriminate|]. split; [intros _ x H; discriminate|].
        split; [intros (i & _ & H); discriminate|]. split; intros x H; discriminate.
      + repeat split; try constructor.
  Qed.

  (* ---- the property, read off the specification outputs ---- *)
  Definition is_outcome (o : hout) : bool := match o with HResp _ _ _ _ | HSendError _ => true | _ => false end.
  (* an outcome for this message that reports a failure: send_error, or a response that is a nack / carries an error status *)
  Definition failure_for_log (o : hout) : Prop :=
    match o with
    | HSendError l => l = log
    | HResp _ l c st => l = log /\ ((c =? SmppCommand_GENERIC_NACK) || negb (st =? SmppCommandStatus_ESME_ROK) = true)
    | _ => False
    end.
  Definition success_for_log (o : hout) : Prop :=
    match o with
    | HResp _ l c st => l = log /\ c = SmppCommand_SUBMIT_SM_RESP /\ st = SmppCommandStatus_ESME_ROK
    | _ => False
    end.

  Lemma processed_blocks q g : all_processed q = true -> ~ oenabled q g.
  Proof.
    intros Hall Hen. unfold all_processed in Hall. rewrite forallb_forall in Hall.
    destruct g as [i|i r' mid|i]; cbn [oenabled] in Hen.
    - destruct Hen as (Hi & Hp & _). specialize (Hall i (proj2 (In_oidx i) Hi)). rewrite Hp in Hall. discriminate.
    - destruct Hen as (Hi & Hp & _). specialize (Hall i (proj2 (In_oidx i) Hi)). rewrite Hp in Hall. discriminate.
    - destruct Hen as (Hi & Hp). specialize (Hall i (proj2 (In_oidx i) Hi)). rewrite Hp in Hall. discriminate.
  Qed.

  Lemma all_ok_code q : all_processed q = true -> (final_code q = STATUS_SENT <-> forall i, (i < k)%nat -> q i = QOk).
  Proof.
    intros Hall. destruct outcome_constants as (_ & _ & _ & _ & CS & CF & CE & CT & _).
    unfold all_processed in Hall. rewrite forallb_forall in Hall. unfold final_code. split.
    - intros H i Hi. specialize (Hall i (proj2 (In_oidx i) Hi)).
      destruct (existsb (fun i => is_qfail (q i)) oidx) eqn:Ef; [rewrite CF, CT in H; lia|].
      destruct (existsb (fun i => is_qexp (q i)) oidx) eqn:Ee; [rewrite CE, CT in H; lia|].
      destruct (q i) eqn:Eq; try discriminate; try reflexivity.
      + rewrite (oexistsb_true (fun j => is_qfail (q j)) i Hi) in Ef by (rewrite Eq; reflexivity). discriminate.
      + rewrite (oexistsb_true (fun j => is_qexp (q j)) i Hi) in Ee by (rewrite Eq; reflexivity). discriminate.
    - intros H.
      assert (existsb (fun i => is_qfail (q i)) oidx = false) as ->.
      { destruct (existsb _ oidx) eqn:E; [|reflexivity]. apply existsb_exists in E as (j & Hj & Hjf). apply In_oidx in Hj. rewrite (H j Hj) in Hjf. discriminate. }
      assert (existsb (fun i => is_qexp (q i)) oidx = false) as ->.
      { destruct (existsb _ oidx) eqn:E; [|reflexivity]. apply existsb_exists in E as (j & Hj & Hjf). apply In_oidx in Hj. rewrite (H j Hj) in Hjf. discriminate. }
      reflexivity.
  Qed.

  (* the outputs of one event: nothing that counts as an outcome before the last segment is processed; exactly one when
     it is, for this message, a success iff every segment was accepted *)
  Lemma step_outcome s q lr g :
    QI s q lr -> oenabled q g ->
    let '(q', lr') := oafter q lr g in
    forall s', QI s' q' lr' ->
    if all_processed q'
    then exists o, filter is_outcome (oexpected q lr g) = [o]
                   /\ ((forall i, (i < k)%nat -> q' i = QOk) -> success_for_log o)
                   /\ ((exists i, (i < k)%nat /\ q' i <> QOk) -> failure_for_log o)
    else filter is_outcome (oexpected q lr g) = [].
  Proof.
    intros HQ Hen. destruct (oafter q lr g) as [q' lr'] eqn:Eaf. intros s' HQ'.
    destruct outcome_constants as (C4 & CR & CN & C0 & CS & CF & CE & CT & _).
    destruct HQ' as [(_ & _ & _ & Hl' & _) _]. destruct Hl' as (Hl1 & Hl2 & Hl3 & Hl4 & Hl5 & Hl6).
    unfold oexpected. rewrite Eaf.
    destruct g as [i|i r' mid|i]; cbn [oafter] in Eaf; injection Eaf as <- <-; cbn [oenabled] in Hen.
    - (* a put never completes the message *)
      destruct Hen as (Hi & _). assert (all_processed (qupd q i QSending) = false) as -> by (apply (oforallb_false _ i Hi); rewrite qupd_same; reflexivity).
      reflexivity.
    - destruct Hen as (Hi & Hp & Hsq & Hcmd). set (q' := qupd q i (if is_fail r' then QFail else QOk)) in *. set (lr' := lr_after lr r') in *.
      unfold resp_out. destruct (all_processed q') eqn:Fp; [|reflexivity].
      destruct (final_code q' =? STATUS_EXPIRED) eqn:Ee.
      + apply Z.eqb_eq in Ee. eexists. split; [reflexivity|]. split.
        * intros Hall. apply (proj2 (all_ok_code q' Fp)) in Hall. rewrite Hall, CT, CE in Ee. discriminate.
        * intros _. reflexivity.
      + assert (lr' <> None) as Hn by (apply Hl4; exists i; split; [exact Hi|unfold q'; rewrite qupd_same; destruct (is_fail r'); reflexivity]).
        destruct lr' as [x|] eqn:Elr; [|contradiction]. eexists. split; [reflexivity|]. split.
        * intros Hall. assert (is_fail x = false) as Hx by (apply (Hl3 (fun j Hj E => ltac:(rewrite (Hall j Hj) in E; discriminate)) x eq_refl)).
          unfold is_fail in Hx. apply orb_false_iff in Hx as [Hx1 Hx2]. apply negb_false_iff in Hx2. apply Z.eqb_eq in Hx2.
          split; [reflexivity|]. split; [|exact Hx2].
          (* the kept response is one of this message's responses: a submit_sm_resp or a nack; not a nack, hence a submit_sm_resp *)
          destruct (Hl6 x eq_refl) as [E|E]; [exact E|]. rewrite E, Z.eqb_refl in Hx1. discriminate.
        * intros (j & Hj & Hjn). cbn [failure_for_log]. split; [reflexivity|].
          assert (final_code q' <> STATUS_SENT) as Hns by (intros E; pose proof (proj1 (all_ok_code q' Fp) E j Hj) as E2; exact (Hjn E2)).
          assert (exists j', (j' < k)%nat /\ q' j' = QFail) as Hex.
          { unfold final_code in Hns, Ee. destruct (existsb (fun i => is_qfail (q' i)) oidx) eqn:Ef.
            - apply existsb_exists in Ef as (j' & Hj' & Hf). apply In_oidx in Hj'. exists j'. split; [exact Hj'|]. destruct (q' j'); try discriminate; reflexivity.
            - destruct (existsb (fun i => is_qexp (q' i)) oidx); [rewrite Z.eqb_refl in Ee; discriminate|contradiction]. }
          destruct (Hl2 Hex) as (y & Ey & Hy). injection Ey as <-. exact Hy.
    - destruct Hen as (Hi & Hp). set (q' := qupd q i QExp) in *.
      destruct (all_processed q') eqn:Fp; [|reflexivity].
      eexists. split; [reflexivity|]. split.
      + intros Hall. specialize (Hall i Hi). unfold q' in Hall. rewrite qupd_same in Hall. discriminate.
      + intros _. reflexivity.
  Qed.

  Lemma o_step s q lr g : QI s q lr -> oenabled q g ->
    exists s', hstep s (oconc g) = (s', oexpected q lr g) /\ QI s' (fst (oafter q lr g)) (snd (oafter q lr g)).
  Proof.
    intros HQ Hen. destruct g as [i|i r' mid|i]; cbn [oenabled] in Hen; cbn [oconc oexpected oafter fst snd].
    - destruct Hen as (Hi & Hp & Hord). apply (o_put_step s q lr i HQ Hi Hp Hord).
    - destruct Hen as (Hi & Hp & Hsq & Hcmd). apply (o_resp_step s q lr i r' mid HQ Hi Hp Hsq Hcmd).
    - destruct Hen as (Hi & Hp). apply (o_expire_step s q lr i HQ Hi Hp).
  Qed.

  Definition verdict (qf : nat -> qphase) (outs : list hout) : Prop :=
    if all_processed qf
    then exists o, filter is_outcome outs = [o]
                   /\ ((forall i, (i < k)%nat -> qf i = QOk) -> success_for_log o)
                   /\ ((exists i, (i < k)%nat /\ qf i <> QOk) -> failure_for_log o)
    else filter is_outcome outs = [].

  Theorem outcome_gen : forall gs s q lr,
    QI s q lr -> all_processed q = false -> ovalid q lr gs ->
    verdict (fst (ofinal q lr gs)) (concat (hrun_each s (map oconc gs))).
  Proof.
    induction gs as [|g t IH]; intros s q lr HQ Hnp Hv.
    - cbn [ofinal fst map hrun_each concat]. unfold verdict. rewrite Hnp. reflexivity.
    - cbn [ovalid] in Hv. destruct Hv as [Hen Hv]. cbn [map hrun_each concat ofinal].
      destruct (o_step s q lr g HQ Hen) as (s' & Hs & HQ'). rewrite Hs. cbn [fst snd].
      pose proof (step_outcome s q lr g HQ Hen) as Hso. destruct (oafter q lr g) as [q' lr'] eqn:Eaf. cbn [fst snd] in *.
      specialize (Hso s' HQ').
      destruct (all_processed q') eqn:Fp.
      + (* the message is complete: nothing further is enabled *)
        destruct t as [|g2 t2].
        * cbn [map hrun_each concat ofinal fst]. rewrite app_nil_r. unfold verdict. rewrite Fp. exact Hso.
        * exfalso. cbn [ovalid] in Hv. destruct Hv as [Hen2 _]. exact (processed_blocks q' g2 Fp Hen2).
      + specialize (IH s' q' lr' HQ' Fp Hv). unfold verdict in *.
        rewrite filter_app, Hso. cbn [app]. exact IH.
  Qed.

  (* from the initial state: one segmented message, any admissible interleaving of its events *)
  Theorem outcome_exactly_once gs :
    ovalid (fun _ => QNot) None gs ->
    verdict (fst (ofinal (fun _ => QNot) None gs)) (concat (hrun_each hinit (map oconc gs))).
  Proof.
    intros Hv. apply (outcome_gen gs hinit _ _ QI_init); [|exact Hv].
    apply (oforallb_false _ 0%nat ltac:(lia)). reflexivity.
  Qed.
End Outcome.

(* ---------- a message that is not segmented ---------- *)
(* its response, whatever it is, reaches the hook at once with the message's log; its time-out goes to send_error *)
Theorem plain_outcome s r' mid e :
  (rs_cmd r' = SmppCommand_SUBMIT_SM_RESP \/ rs_cmd r' = SmppCommand_GENERIC_NACK) ->
  dget (rs_seq r') (c_store (h_corr s)) = Some e -> sm_cmd (e_msg e) = SmppCommand_SUBMIT_SM ->
  dget (rs_seq r') (c_seg (h_corr s)) = None -> snd (sm_sar (e_msg e)) = 0 ->
  snd (handle_response s r' mid) = [HResp (rs_uid r') (sm_log (e_msg e)) (rs_cmd r') (rs_status r')].
Proof.
  intros Hcmd Hg Hm Hseg Hplain. destruct outcome_constants as (C4 & CR & CN & C0 & CS & CF & CE & CT & HmR & HmN & Hlk).
  assert (get_pop (h_corr s) r' = (with_store (h_corr s) (ddel (rs_seq r') (c_store (h_corr s))), Some e)) as Hgp.
  { assert (is_submit (e_msg e) = true) as Hsub by (unfold is_submit; rewrite Hm; apply Z.eqb_refl).
    unfold get_pop. rewrite Hg, (answers_submit r' (e_msg e) Hsub Hcmd). cbn [negb]. rewrite Hsub. cbn [with_store c_seg]. rewrite Hseg. reflexivity. }
  assert (forall c, c_seg c = c_seg (h_corr s) -> get_segmented c (rs_seq r') false = (c, None, 0)) as Hgs.
  { intros c Ec. unfold get_segmented. rewrite Ec, Hseg. reflexivity. }
  unfold handle_response. destruct Hcmd as [E|E]; rewrite E.
  - rewrite CR, HmR. cbn [negb]. rewrite CN. change (2147483652 =? 2147483648) with false. cbv iota. rewrite Hlk, Hgp. cbv beta iota.
    rewrite Hm, C4. change (4 =? 4) with true. cbn [negb]. cbv iota. change ((2147483652 =? 2147483652) || (2147483652 =? 2147483648)) with true. cbn [andb].
    destruct (mem (rs_status r') throttled_statuses); cbv beta iota zeta; cbn [h_corr]; rewrite (Hgs (with_store (h_corr s) (ddel (rs_seq r') (c_store (h_corr s)))) eq_refl); rewrite Hplain; reflexivity.
  - rewrite CN, HmN. cbn [negb]. change (2147483648 =? 2147483648) with true. cbv iota. rewrite Hgp. cbv beta iota.
    rewrite Hm, C4. change (4 =? 4) with true. rewrite CR. change ((2147483648 =? 2147483652) || (2147483648 =? 2147483648)) with true. cbn [andb].
    destruct (mem (rs_status r') throttled_statuses); cbv beta iota zeta; cbn [h_corr]; rewrite (Hgs (with_store (h_corr s) (ddel (rs_seq r') (c_store (h_corr s)))) eq_refl); rewrite Hplain; reflexivity.
Qed.

Theorem plain_timeout s sq e :
  dget sq (c_store (h_corr s)) = Some e -> sm_cmd (e_msg e) = SmppCommand_SUBMIT_SM -> sm_seq (e_msg e) = sq ->
  dget sq (c_seg (h_corr s)) = None ->
  snd (hstep s (HExpire sq)) = [HSendError (sm_log (e_msg e))].
Proof.
  intros Hg Hm Hsq Hseg. cbn [hstep]. unfold expire_one. rewrite Hg. unfold expired, is_submit. rewrite Hm, Z.eqb_refl, Hsq. cbn [with_store c_seg]. rewrite Hseg. reflexivity.
Qed.

(* the handler with the in-call sweep is the plain handler when nothing times out during the call *)
Theorem handle_response_x_nil s r' mid : handle_response_x [] s r' mid = handle_response s r' mid.
Proof.
  unfold handle_response_x, handle_response. cbn [expire_all fst snd app].
  destruct (negb _); [reflexivity|]. destruct (if rs_cmd r' =? _ then _ else _) as [oc|]; [|reflexivity].
  destruct (get_pop (h_corr s) r') as [c0 oe]. cbn [with_corr h_corr]. reflexivity.
Qed.
