(* Lemmas for C03/C04: PDU header and the simple message classes. *)
From Coq Require Import ZArith List Bool Lia.
Import ListNotations.
Require Import AV.Generated.GsmTables AV.Generated.ExnOrder AV.Generated.SmppConsts
               AV.Model.Base AV.Model.Codec AV.Model.Split AV.Model.TimeFmt AV.Model.Pdu.
Open Scope Z_scope.
Ltac Zify.zify_post_hook ::= Z.to_euclidean_division_equations.

(* ---------- integers ---------- *)
Lemma packI_ok x : 0 <= x <= 4294967295 ->
  packI x = Ok [x / 16777216; (x / 65536) mod 256; (x / 256) mod 256; x mod 256].
Proof. intros H. unfold packI. replace ((0 <=? x) && (x <=? 4294967295)) with true; [reflexivity|]. symmetry. apply andb_true_intro. split; apply Z.leb_le; lia. Qed.

Lemma packI_inv x b : packI x = Ok b -> 0 <= x <= 4294967295 /\ b = [x / 16777216; (x / 65536) mod 256; (x / 256) mod 256; x mod 256].
Proof.
  unfold packI. destruct ((0 <=? x) && (x <=? 4294967295)) eqn:E; [|discriminate]. intros H. injection H as <-.
  apply andb_prop in E as [E1 E2]. apply Z.leb_le in E1, E2. split; [lia|reflexivity].
Qed.

Lemma unpackI_packI x rest : 0 <= x <= 4294967295 ->
  unpackI ([x / 16777216; (x / 65536) mod 256; (x / 256) mod 256; x mod 256] ++ rest) 0 = Ok x.
Proof. intros H. unfold unpackI. cbn [skipn app]. f_equal. lia. Qed.

Lemma packB_inv x b : packB x = Ok b -> 0 <= x <= 255 /\ b = [x].
Proof.
  unfold packB. destruct ((0 <=? x) && (x <=? 255)) eqn:E; [|discriminate]. intros H. injection H as <-.
  apply andb_prop in E as [E1 E2]. apply Z.leb_le in E1, E2. split; [lia|reflexivity].
Qed.

(* ---------- the header ---------- *)
Lemma rapp_inv a b r : a +++ b = Ok r -> exists x y, a = Ok x /\ b = Ok y /\ r = x ++ y.
Proof. unfold rapp. destruct a as [x|]; cbn [rbind]; [|discriminate]. destruct b as [y|]; cbn [rbind]; [|discriminate]. intros H. injection H as <-. eauto. Qed.

Lemma pack_header_inv len cmd st seq hd :
  pack_header len cmd st seq = Ok hd ->
  0 <= len <= 4294967295 /\ 0 <= cmd <= 4294967295 /\ 0 <= st <= 4294967295 /\ 0 <= seq <= 4294967295
  /\ length hd = 16%nat
  /\ forall rest, unpackI (hd ++ rest) 0 = Ok len /\ unpackI (hd ++ rest) 4 = Ok cmd
                  /\ unpackI (hd ++ rest) 8 = Ok st /\ unpackI (hd ++ rest) 12 = Ok seq.
Proof.
  unfold pack_header. intros H.
  apply rapp_inv in H as (b1 & r1 & H1 & H & ->). apply rapp_inv in H as (b2 & r2 & H2 & H & ->).
  apply rapp_inv in H as (b3 & b4 & H3 & H4 & ->).
  apply packI_inv in H1 as [R1 ->]. apply packI_inv in H2 as [R2 ->]. apply packI_inv in H3 as [R3 ->]. apply packI_inv in H4 as [R4 ->].
  repeat split; try lia; unfold unpackI; cbn [app skipn]; f_equal; lia.
Qed.

(* command_length always equals the number of bytes produced, for every class *)
Theorem encode_length default msg b :
  encode default msg = Ok b -> unpackI b 0 = Ok (Z.of_nat (length b)).
Proof.
  assert (forall body cmd st seq hd, pack_header (16 + Z.of_nat (length body)) cmd st seq = Ok hd ->
            unpackI (hd ++ body) 0 = Ok (Z.of_nat (length (hd ++ body)))) as Hgen.
  { intros body cmd st seq hd H. apply pack_header_inv in H as (_ & _ & _ & _ & Hl & Hu).
    destruct (Hu body) as [-> _]. rewrite app_length, Hl. f_equal. lia. }
  destruct msg as [cmd m|cmd seq st mid|cmd bd|cmd seq st sid ver|cmd seq st]; cbn [encode].
  - unfold encode_sm.
    destruct (match s_pre m with [] => _ | _ => _ end) as [[[sm ptlv] e']|]; cbn [rbind]; [|discriminate].
    destruct (match e' with Some e => enc_data_coding e | None => Ok 0 end) as [dc|]; cbn [rbind]; [|discriminate].
    destruct (rconcat _) as [opts|]; cbn [rbind]; [|discriminate].
    destruct (cstr (s_service m) +++ _) as [body|] eqn:Eb; cbn [rbind]; [|discriminate].
    destruct (pack_header _ _ _ _) as [hd|] eqn:Eh; cbn [rbind fst]; [|discriminate].
    intros H. injection H as <-. eapply Hgen; eauto.
  - destruct (cstr mid) as [body|]; cbn [rbind]; [|discriminate].
    destruct (pack_header _ _ _ _) as [hd|] eqn:Eh; cbn [rbind]; [|discriminate]. intros H. injection H as <-. eapply Hgen; eauto.
  - destruct (cstr (b_system_id bd) +++ _) as [body|] eqn:Eb; cbn [rbind]; [|discriminate].
    destruct (pack_header _ _ _ _) as [hd|] eqn:Eh; cbn [rbind]; [|discriminate]. intros H. injection H as <-. eapply Hgen; eauto.
  - destruct (cstr sid +++ _) as [body|] eqn:Eb; cbn [rbind]; [|discriminate].
    destruct (pack_header _ _ _ _) as [hd|] eqn:Eh; cbn [rbind]; [|discriminate]. intros H. injection H as <-. eapply Hgen; eauto.
  - intros H. change 16 with (16 + Z.of_nat (length (@nil Z))) in H. rewrite <- (app_nil_r b). eapply Hgen; eauto.
Qed.

(* the header parses back *)
Theorem header_roundtrip len cmd st seq hd rest :
  pack_header len cmd st seq = Ok hd -> mem cmd SmppCommand_values = true -> mem st SmppCommandStatus_values = true ->
  parse_header (hd ++ rest) = Ok {| h_len := len; h_cmd := cmd; h_status := st; h_seq := seq |}.
Proof.
  intros H Hc Hs. apply pack_header_inv in H as (_ & _ & _ & _ & _ & Hu). destruct (Hu rest) as (E1 & E2 & E3 & E4).
  unfold parse_header. rewrite E1, E2, E3, E4. cbn [rbind]. rewrite Hc, Hs. reflexivity.
Qed.

(* header-only messages (generic_nack, enquire_link(_resp), unbind(_resp)) round trip exactly *)
Theorem plain_roundtrip default cmd seq st b :
  mem cmd message_type_map_keys = true -> mem cmd SmppCommand_values = true -> mem st SmppCommandStatus_values = true ->
  (cmd =? SmppCommand_SUBMIT_SM) || (cmd =? SmppCommand_DELIVER_SM) = false ->
  (cmd =? SmppCommand_SUBMIT_SM_RESP) || (cmd =? SmppCommand_DELIVER_SM_RESP) = false ->
  is_bind cmd = false -> is_bind_resp cmd = false ->
  encode default (MPlain cmd seq st) = Ok b ->
  exists h, parse_header b = Ok h /\ decode default b h = Ok (MPlain cmd seq st).
Proof.
  intros Hk Hc Hs N1 N2 N3 N4 He. cbn [encode] in He.
  pose proof (header_roundtrip 16 cmd st seq b [] He Hc Hs) as Hp. rewrite app_nil_r in Hp.
  eexists. split; [exact Hp|]. unfold decode. cbn [h_cmd h_seq h_status]. rewrite N1, N2, N3, N4, Hk. reflexivity.
Qed.

(* ---------- C-octet strings and positional reads ---------- *)
Definition ok_cstr (s : list Z) : Prop := Forall (fun c => 1 <= c < 128) s.

Lemma ascii_encode_ok s : ok_cstr s -> ascii_encode s = Ok s.
Proof.
  intros H. unfold ascii_encode. replace (forallb (fun c => (0 <=? c) && (c <? 128)) s) with true; [reflexivity|].
  symmetry. apply forallb_forall. intros c Hc. unfold ok_cstr in H. rewrite Forall_forall in H. specialize (H c Hc). lia.
Qed.

Lemma ascii_decode_ok s : ok_cstr s -> ascii_decode s = Ok s.
Proof.
  intros H. unfold ascii_decode. replace (forallb (fun c => c <? 128) s) with true; [reflexivity|].
  symmetry. apply forallb_forall. intros c Hc. unfold ok_cstr in H. rewrite Forall_forall in H. specialize (H c Hc). lia.
Qed.

Lemma cstr_ok s : ok_cstr s -> cstr s = Ok (s ++ [0]).
Proof. intros H. unfold cstr. rewrite (ascii_encode_ok s H). reflexivity. Qed.

Lemma find_nul_app s rest i : ok_cstr s -> find_nul (s ++ 0 :: rest) i = Some (i + length s)%nat.
Proof.
  revert i. induction s as [|c t IH]; intros i H; cbn [app find_nul length].
  - rewrite Nat.add_0_r. reflexivity.
  - inversion_clear H as [|? ? Hc Ht]. replace (c =? 0) with false by (symmetry; apply Z.eqb_neq; lia).
    rewrite (IH (S i) Ht). f_equal. lia.
Qed.

Lemma skipn_add {A} (l : list A) i a rest : skipn i l = a ++ rest -> skipn (i + length a) l = rest.
Proof.
  revert l. induction i as [|i IH]; intros l H; cbn [skipn Nat.add] in *.
  - rewrite H. rewrite skipn_app, skipn_all, Nat.sub_diag. reflexivity.
  - destruct l as [|x l]; [|apply IH; exact H].
    destruct a; [|discriminate]. cbn [app] in H. subst rest. cbn. reflexivity.
Qed.

Lemma get_cstr_at pdu i s rest : skipn i pdu = s ++ 0 :: rest -> ok_cstr s ->
  get_cstr pdu i = Ok (s, S (i + length s)) /\ skipn (S (i + length s)) pdu = rest.
Proof.
  intros H Hs. unfold get_cstr. rewrite H, (find_nul_app s rest i Hs).
  replace (i + length s - i)%nat with (length s) by lia.
  rewrite firstn_app, firstn_all, Nat.sub_diag. cbn [firstn]. rewrite app_nil_r, (ascii_decode_ok s Hs). cbn [rbind].
  split; [reflexivity|].
  replace (S (i + length s)) with (i + length (s ++ [0%Z]))%nat by (rewrite app_length; cbn; lia).
  apply skipn_add. rewrite H, <- app_assoc. reflexivity.
Qed.

Lemma unpackB_at pdu i x rest : skipn i pdu = x :: rest -> unpackB pdu i = Ok x /\ skipn (S i) pdu = rest.
Proof.
  intros H. unfold unpackB. rewrite H. split; [reflexivity|].
  replace (S i) with (i + length [x])%nat by (cbn; lia). apply skipn_add. exact H.
Qed.

Lemma skipn_header {A} (hd body : list A) : length hd = 16%nat -> skipn 16 (hd ++ body) = body.
Proof. intros H. rewrite skipn_app, H, Nat.sub_diag. rewrite skipn_all2 by lia. reflexivity. Qed.

(* ---------- submit_sm_resp / deliver_sm_resp ---------- *)
Theorem smresp_roundtrip default cmd seq st mid b :
  (cmd =? SmppCommand_SUBMIT_SM_RESP) || (cmd =? SmppCommand_DELIVER_SM_RESP) = true ->
  mem cmd SmppCommand_values = true -> mem st SmppCommandStatus_values = true ->
  ok_cstr mid -> (length mid <= 64)%nat ->
  encode default (MSmResp cmd seq st mid) = Ok b ->
  exists h, parse_header b = Ok h /\ decode default b h = Ok (MSmResp cmd seq st mid).
Proof.
  intros Hcmd Hc Hs Hm Hl He. cbn [encode] in He. rewrite (cstr_ok mid Hm) in He. cbn [rbind] in He.
  destruct (pack_header _ _ _ _) as [hd|] eqn:Eh; cbn [rbind] in He; [|discriminate]. injection He as <-.
  pose proof (header_roundtrip _ cmd st seq hd (mid ++ [0]) Eh Hc Hs) as Hp.
  eexists. split; [exact Hp|]. apply pack_header_inv in Eh as (_ & _ & _ & _ & Hlen & _).
  unfold decode. cbn [h_cmd h_len h_seq h_status].
  assert ((cmd =? SmppCommand_SUBMIT_SM) || (cmd =? SmppCommand_DELIVER_SM) = false) as ->.
  { apply orb_prop in Hcmd. assert (SmppCommand_SUBMIT_SM_RESP <> SmppCommand_SUBMIT_SM /\ SmppCommand_SUBMIT_SM_RESP <> SmppCommand_DELIVER_SM
            /\ SmppCommand_DELIVER_SM_RESP <> SmppCommand_SUBMIT_SM /\ SmppCommand_DELIVER_SM_RESP <> SmppCommand_DELIVER_SM) as (A1 & A2 & A3 & A4)
      by (vm_compute; repeat split; discriminate).
    destruct Hcmd as [E|E]; apply Z.eqb_eq in E; rewrite E; apply orb_false_iff; split; apply Z.eqb_neq; assumption. }
  rewrite Hcmd. unfold slice_b. rewrite (skipn_header hd (mid ++ [0]) Hlen).
  rewrite app_length. cbn [length].
  replace (Z.to_nat (16 + Z.of_nat (length mid + 1) - 1) - 16)%nat with (length mid) by lia.
  rewrite firstn_app, firstn_all, Nat.sub_diag. cbn [firstn]. rewrite app_nil_r, (ascii_decode_ok mid Hm). cbn [rbind].
  unfold check_len. replace (Nat.leb (length mid) 64) with true by (symmetry; apply Nat.leb_le; exact Hl). reflexivity.
Qed.

Lemma packB_ok x : 0 <= x <= 255 -> packB x = Ok [x].
Proof. intros H. unfold packB. replace ((0 <=? x) && (x <=? 255)) with true; [reflexivity|]. symmetry. apply andb_true_intro. split; apply Z.leb_le; lia. Qed.

Lemma check_len_ok s n : (length s <= n)%nat -> check_len s n = Ok tt.
Proof. intros H. unfold check_len. replace (Nat.leb (length s) n) with true; [reflexivity|]. symmetry. apply Nat.leb_le. exact H. Qed.

Lemma mem_enum_ok x l : mem x l = true -> mem_enum x l = Ok x.
Proof. intros H. unfold mem_enum. rewrite H. reflexivity. Qed.

Lemma is_bind_not_sm cmd : is_bind cmd = true ->
  (cmd =? SmppCommand_SUBMIT_SM) || (cmd =? SmppCommand_DELIVER_SM) = false /\
  (cmd =? SmppCommand_SUBMIT_SM_RESP) || (cmd =? SmppCommand_DELIVER_SM_RESP) = false.
Proof.
  unfold is_bind. intros H. apply orb_prop in H as [H|H]; [apply orb_prop in H as [H|H]|]; apply Z.eqb_eq in H; subst cmd; vm_compute; split; reflexivity.
Qed.

Lemma is_bind_resp_not_other cmd : is_bind_resp cmd = true ->
  (cmd =? SmppCommand_SUBMIT_SM) || (cmd =? SmppCommand_DELIVER_SM) = false /\
  (cmd =? SmppCommand_SUBMIT_SM_RESP) || (cmd =? SmppCommand_DELIVER_SM_RESP) = false /\ is_bind cmd = false.
Proof.
  unfold is_bind_resp. intros H. apply orb_prop in H as [H|H]; [apply orb_prop in H as [H|H]|]; apply Z.eqb_eq in H; subst cmd; vm_compute; repeat split; reflexivity.
Qed.

(* ---------- bind_transceiver / bind_transmitter / bind_receiver ---------- *)
Definition wf_bind (b : bindreq) : Prop :=
  b_status b = 0 /\
  ok_cstr (b_system_id b) /\ (length (b_system_id b) <= 15)%nat /\
  ok_cstr (b_password b) /\ (length (b_password b) <= 8)%nat /\
  ok_cstr (b_system_type b) /\ (length (b_system_type b) <= 12)%nat /\
  ok_cstr (b_range b) /\ (length (b_range b) <= 40)%nat /\
  0 <= b_iface b <= 255 /\ mem (b_ton b) TON_values = true /\ mem (b_npi b) NPI_values = true.

Lemma enum_byte_range x : mem x TON_values = true \/ mem x NPI_values = true -> 0 <= x <= 255.
Proof.
  assert (forall l x, mem x l = true -> In x l) as Hin.
  { intros l y H. unfold mem in H. apply existsb_exists in H as (z & Hz & E). apply Z.eqb_eq in E. subst z. exact Hz. }
  intros [H|H]; apply Hin in H; cbn in H; lia.
Qed.

Theorem bind_roundtrip default cmd bd b :
  is_bind cmd = true -> mem cmd SmppCommand_values = true -> wf_bind bd ->
  encode default (MBind cmd bd) = Ok b ->
  exists h, parse_header b = Ok h /\ decode default b h = Ok (MBind cmd bd).
Proof.
  intros Hcmd Hc (Hst & S1 & L1 & S2 & L2 & S3 & L3 & S4 & L4 & Ri & Ht & Hn) He.
  destruct bd as [seq st sid pw sty ifv ton npi rng]. cbn [b_seq b_status b_system_id b_password b_system_type b_iface b_ton b_npi b_range] in *.
  subst st. cbn [encode b_seq b_status b_system_id b_password b_system_type b_iface b_ton b_npi b_range] in He.
  rewrite (cstr_ok sid S1), (cstr_ok pw S2), (cstr_ok sty S3), (cstr_ok rng S4), (packB_ok ifv Ri),
          (packB_ok ton (enum_byte_range ton (or_introl Ht))), (packB_ok npi (enum_byte_range npi (or_intror Hn))) in He.
  unfold rapp in He. cbn [rbind] in He.
  destruct (pack_header _ _ _ _) as [hd|] eqn:Eh; cbn [rbind] in He; [|discriminate]. injection He as <-.
  assert (mem 0 SmppCommandStatus_values = true) as Hs0 by (vm_compute; reflexivity).
  pose proof (fun rest => header_roundtrip _ cmd 0 seq hd rest Eh Hc Hs0) as Hp.
  eexists. split; [exact (Hp _)|]. apply pack_header_inv in Eh as (_ & _ & _ & _ & Hlen & _).
  unfold decode. cbn [h_cmd h_len h_seq h_status].
  destruct (is_bind_not_sm cmd Hcmd) as [-> ->]. rewrite Hcmd.
  match goal with |- context [get_cstr ?p 16] => set (pdu := p) end.
  assert (skipn 16 pdu = sid ++ 0 :: pw ++ 0 :: sty ++ 0 :: ifv :: ton :: npi :: rng ++ 0 :: []) as K0.
  { unfold pdu. rewrite (skipn_header _ _ Hlen). rewrite <- !app_assoc. reflexivity. }
  destruct (get_cstr_at pdu 16 sid _ K0 S1) as [-> K1]. cbn [rbind].
  destruct (get_cstr_at pdu _ pw _ K1 S2) as [-> K2]. cbn [rbind].
  destruct (get_cstr_at pdu _ sty _ K2 S3) as [-> K3]. cbn [rbind].
  set (i := S (S (S (16 + length sid) + length pw) + length sty)) in *.
  destruct (unpackB_at pdu i _ _ K3) as [-> K4]. cbn [rbind].
  replace (i + 1)%nat with (S i) by lia. destruct (unpackB_at pdu _ _ _ K4) as [-> K5]. cbn [rbind].
  rewrite (mem_enum_ok _ _ Ht). cbn [rbind].
  replace (i + 2)%nat with (S (S i)) by lia. destruct (unpackB_at pdu _ _ _ K5) as [-> K6]. cbn [rbind].
  rewrite (mem_enum_ok _ _ Hn). cbn [rbind].
  replace (i + 3)%nat with (S (S (S i))) by lia. destruct (get_cstr_at pdu _ rng _ K6 S4) as [-> K7]. cbn [rbind].
  rewrite (check_len_ok _ _ L1), (check_len_ok _ _ L2), (check_len_ok _ _ L3), (check_len_ok _ _ L4). cbn [rbind]. reflexivity.
Qed.

Lemma unpackB_off pdu i pre x rest : skipn i pdu = pre ++ x :: rest -> unpackB pdu (i + length pre) = Ok x.
Proof. intros H. apply skipn_add in H. apply unpackB_at in H as [H _]. exact H. Qed.

(* ---------- bind_*_resp ---------- *)
Lemma op_tlv_scver v : op_tlv {| op_tag := TAG_SC_INTERFACE_VERSION; op_val := TInt v |}
                       = packH TAG_SC_INTERFACE_VERSION +++ packH 1 +++ packB v.
Proof. reflexivity. Qed.

Theorem bindresp_roundtrip default cmd seq st sid ver b :
  is_bind_resp cmd = true -> mem cmd SmppCommand_values = true -> mem st SmppCommandStatus_values = true ->
  ok_cstr sid -> (length sid <= 15)%nat -> (forall v, ver = Some v -> 0 <= v <= 255) ->
  encode default (MBindResp cmd seq st sid ver) = Ok b ->
  exists h, parse_header b = Ok h /\ decode default b h = Ok (MBindResp cmd seq st sid ver).
Proof.
  intros Hcmd Hc Hs S1 L1 Hv He. cbn [encode] in He. rewrite (cstr_ok sid S1) in He.
  assert (exists t, match ver with Some v => op_tlv {| op_tag := TAG_SC_INTERFACE_VERSION; op_val := TInt v |} | None => Ok [] end = Ok t
                    /\ match ver with Some v => exists t1 t2, t = [t1; t2; 0; 1; v] | None => t = [] end) as (t & Et & Ht).
  { destruct ver as [v|]; [|eexists; split; reflexivity]. rewrite op_tlv_scver, (packB_ok v (Hv v eq_refl)).
    eexists. split; [vm_compute; reflexivity|]. eexists _, _. reflexivity. }
  rewrite Et in He. unfold rapp in He. cbn [rbind] in He.
  destruct (pack_header _ _ _ _) as [hd|] eqn:Eh; cbn [rbind] in He; [|discriminate]. injection He as <-.
  pose proof (fun rest => header_roundtrip _ cmd st seq hd rest Eh Hc Hs) as Hp.
  eexists. split; [exact (Hp _)|]. apply pack_header_inv in Eh as (_ & _ & _ & _ & Hlen & _).
  unfold decode. cbn [h_cmd h_len h_seq h_status].
  destruct (is_bind_resp_not_other cmd Hcmd) as (-> & -> & ->). rewrite Hcmd.
  rewrite (skipn_header _ _ Hlen). rewrite <- app_assoc. cbn [app].
  rewrite (find_nul_app sid t 16 S1).
  replace (16 + length sid - 16)%nat with (length sid) by lia.
  rewrite firstn_app, firstn_all, Nat.sub_diag. cbn [firstn]. rewrite app_nil_r, (ascii_decode_ok sid S1). cbn [rbind].
  rewrite (check_len_ok _ _ L1).
  rewrite !app_length. cbn [length].
  destruct ver as [v|].
  - destruct Ht as (t1 & t2 & ->). cbn [length].
    replace (Nat.ltb _ _) with true by (symmetry; apply Nat.ltb_lt; lia).
    replace (Nat.eqb _ _) with true by (symmetry; apply Nat.eqb_eq; lia).
    assert (skipn (S (16 + length sid)) (hd ++ sid ++ 0 :: [t1; t2; 0; 1; v]) = [t1; t2; 0; 1] ++ v :: []) as K.
    { replace (S (16 + length sid)) with (16 + length (sid ++ [0%Z]))%nat by (rewrite app_length; cbn; lia).
      apply skipn_add. rewrite (skipn_header _ _ Hlen), <- app_assoc. reflexivity. }
    apply unpackB_off in K. cbn [length] in K. rewrite K. reflexivity.
  - subst t. cbn [length]. replace (Nat.ltb _ _) with false by (symmetry; apply Nat.ltb_ge; lia). reflexivity.
Qed.
