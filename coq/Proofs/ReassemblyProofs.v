(* Lemmas for C09: inbound segmented messages reassemble for any arrival order. *)
From Coq Require Import ZArith QArith List Bool Lia Sorting.Permutation.
Import ListNotations.
Require Import AV.Generated.ExnOrder AV.Model.Base AV.Model.PyDict AV.Model.Reassembly AV.Proofs.PyDictProofs.
Open Scope Z_scope.

(* ---------- sorting by key ---------- *)

Fixpoint ssorted (l : list (Z * text)) : Prop :=
  match l with
  | [] => True
  | x :: t => (forall y, In y t -> fst x < fst y) /\ ssorted t
  end.

Lemma insert_In kv l x : In x (insert_by_key kv l) <-> x = kv \/ In x l.
Proof.
  induction l as [|y t IH]; cbn [insert_by_key].
  - cbn. intuition congruence.
  - destruct (fst kv <? fst y); cbn [In]; [intuition congruence|]. rewrite IH. intuition congruence.
Qed.

Lemma sort_In l x : In x (sort_by_key l) <-> In x l.
Proof.
  induction l as [|y t IH]; cbn [sort_by_key]; [tauto|]. rewrite insert_In, IH. cbn. intuition congruence.
Qed.

Lemma insert_sorted kv l : ssorted l -> (forall y, In y l -> fst y <> fst kv) -> ssorted (insert_by_key kv l).
Proof.
  induction l as [|y t IH]; cbn [insert_by_key ssorted]; intros Hs Hne.
  - split; [intros y []|exact I].
  - destruct Hs as [Hy Ht]. destruct (Z.ltb_spec (fst kv) (fst y)) as [Hlt|Hge].
    + cbn [ssorted]. split; [|split; assumption].
      intros z [<-|Hz]; [exact Hlt|]. specialize (Hy z Hz). lia.
    + cbn [ssorted]. split.
      * intros z Hz. apply insert_In in Hz as [->|Hz]; [|auto].
        assert (fst y <> fst kv) by (apply Hne; left; reflexivity). lia.
      * apply IH; [exact Ht|]. intros z Hz. apply Hne. right. exact Hz.
Qed.

Lemma sort_sorted l : NoDup (map fst l) -> ssorted (sort_by_key l).
Proof.
  induction l as [|y t IH]; cbn [sort_by_key map]; intros H; [exact I|].
  inversion_clear H as [|? ? Hn Ht]. apply insert_sorted; [apply IH; exact Ht|].
  intros z Hz Heq. apply (proj1 (sort_In t z)) in Hz. apply Hn. rewrite <- Heq. apply in_map. exact Hz.
Qed.

(* two strictly sorted lists with the same elements are equal *)
Lemma ssorted_unique l1 : forall l2, ssorted l1 -> ssorted l2 -> (forall x, In x l1 <-> In x l2) -> l1 = l2.
Proof.
  induction l1 as [|a t1 IH]; intros l2 H1 H2 Heq.
  - destruct l2 as [|b t2]; [reflexivity|]. exfalso. apply (Heq b). left; reflexivity.
  - destruct l2 as [|b t2]; [exfalso; apply (Heq a); left; reflexivity|].
    cbn [ssorted] in H1, H2. destruct H1 as [Ha Ht1]. destruct H2 as [Hb Ht2].
    assert (a = b) as ->.
    { destruct (proj1 (Heq a) (or_introl eq_refl)) as [E|Hin]; [congruence|].
      destruct (proj2 (Heq b) (or_introl eq_refl)) as [E|Hin2]; [congruence|].
      specialize (Ha b Hin2). specialize (Hb a Hin). lia. }
    f_equal. apply IH; auto. intros x. split; intros Hx.
    + destruct (proj1 (Heq x) (or_intror Hx)) as [E|Hin]; [|exact Hin]. subst x. specialize (Ha b Hx). lia.
    + destruct (proj2 (Heq x) (or_intror Hx)) as [E|Hin]; [|exact Hin]. subst x. specialize (Hb b Hx). lia.
Qed.

(* the segments of a message in numeric order *)
Fixpoint numbered (i : Z) (parts : list text) : list (Z * text) :=
  match parts with [] => [] | p :: t => (i, p) :: numbered (i + 1) t end.

Lemma numbered_In i parts x : In x (numbered i parts) -> i <= fst x.
Proof.
  revert i. induction parts as [|p t IH]; intros i H; [destruct H|]. cbn [numbered] in H.
  destruct H as [<-|H]; [cbn; lia|]. specialize (IH (i + 1) H). lia.
Qed.

Lemma numbered_sorted i parts : ssorted (numbered i parts).
Proof.
  revert i. induction parts as [|p t IH]; intros i; cbn [numbered ssorted]; [exact I|].
  split; [|apply IH]. intros y Hy. apply numbered_In in Hy. cbn. lia.
Qed.

Lemma numbered_snd i parts : map snd (numbered i parts) = parts.
Proof. revert i. induction parts as [|p t IH]; intros i; cbn [numbered map]; [reflexivity|]. rewrite IH. reflexivity. Qed.

Lemma numbered_length i parts : length (numbered i parts) = length parts.
Proof. revert i. induction parts as [|p t IH]; intros i; cbn [numbered length]; [reflexivity|]. rewrite IH. reflexivity. Qed.

Lemma numbered_keys_NoDup i parts : NoDup (map fst (numbered i parts)).
Proof.
  revert i. induction parts as [|p t IH]; intros i; cbn [numbered map]; [constructor|].
  constructor; [|apply IH]. intros Hin. apply in_map_iff in Hin as [x [E Hx]]. apply numbered_In in Hx. cbn in E. lia.
Qed.

(* a collection of distinct numbered segments that has as many entries as the message has parts is
   the whole message, whatever order it was collected in *)
Lemma join_complete (d : dict text) parts :
  NoDup (map fst d) -> incl d (numbered 1 parts) -> length d = length parts ->
  join_parts d = concat parts.
Proof.
  intros Hnd Hincl Hlen. unfold join_parts.
  assert (NoDup d) as Hndd by (eapply NoDup_map_inv; exact Hnd).
  assert (incl (numbered 1 parts) d) as Hincl2.
  { apply NoDup_length_incl; [exact Hndd| |exact Hincl]. rewrite numbered_length. lia. }
  assert (sort_by_key d = numbered 1 parts) as ->.
  { apply ssorted_unique; [apply sort_sorted; exact Hnd|apply numbered_sorted|].
    intros x. rewrite sort_In. split; [apply Hincl|apply Hincl2]. }
  rewrite numbered_snd. reflexivity.
Qed.

(* ---------- the stream ---------- *)

(* a family of messages: reference -> its segment texts *)
Definition family := list (Z * list text).

Definition arrival := (Z * Z * Z * text)%type.
Definition a_ref (a : arrival) : Z := fst (fst (fst a)).
Definition a_seq (a : arrival) : Z := snd (fst (fst a)).
Definition a_total (a : arrival) : Z := snd (fst a).
Definition a_text (a : arrival) : text := snd a.

(* the arrival is segment a_seq of a message of the family *)
Definition belongs (fam : family) (a : arrival) : Prop :=
  exists parts, In (a_ref a, parts) fam /\ a_total a = Z.of_nat (length parts)
                /\ In (a_seq a, a_text a) (numbered 1 parts).

Definition arrived (r : Z) (P : list arrival) : list (Z * text) :=
  map (fun a => (a_seq a, a_text a)) (filter (fun a => a_ref a =? r) P).

Lemma arrived_app r P Q : arrived r (P ++ Q) = arrived r P ++ arrived r Q.
Proof. unfold arrived. rewrite filter_app, map_app. reflexivity. Qed.

Definition wf_family (fam : family) : Prop :=
  NoDup (map fst fam) /\ forall r parts, In (r, parts) fam -> (2 <= length parts)%nat.

Definition Inv (fam : family) (st : dstore) (P : list arrival) : Prop :=
  NoDup (@dkeys dsegs st)
  /\ forall r, match dget r st with
               | Some d => ds_parts d = arrived r P /\ arrived r P <> []
                           /\ forall parts, In (r, parts) fam -> (length (arrived r P) < length parts)%nat
               | None => arrived r P = [] \/ exists parts, In (r, parts) fam /\ length (arrived r P) = length parts
               end.

Lemma family_unique (fam : family) r p1 p2 : NoDup (map fst fam) -> In (r, p1) fam -> In (r, p2) fam -> p1 = p2.
Proof.
  induction fam as [|[r' p'] t IH]; intros Hnd H1 H2; [destruct H1|].
  cbn [map fst] in Hnd. inversion_clear Hnd as [|? ? Hn Ht].
  destruct H1 as [E1|H1], H2 as [E2|H2].
  - congruence.
  - injection E1 as -> ->. exfalso. apply Hn. apply in_map_iff. exists (r, p2). auto.
  - injection E2 as -> ->. exfalso. apply Hn. apply in_map_iff. exists (r, p1). auto.
  - apply IH; auto.
Qed.

(* distinct segments: no (ref, seq) pair arrives twice *)
Definition distinct (P : list arrival) : Prop := NoDup (map (fun a => (a_ref a, a_seq a)) P).

Lemma arrived_keys_NoDup r P : distinct P -> NoDup (map fst (arrived r P)).
Proof.
  unfold distinct, arrived. induction P as [|a t IH]; cbn [map filter]; intros H; [constructor|].
  inversion_clear H as [|? ? Hn Ht]. destruct (Z.eqb_spec (a_ref a) r) as [E|E]; [|apply IH; exact Ht].
  cbn [map fst]. constructor; [|apply IH; exact Ht].
  intros Hin. apply in_map_iff in Hin as [[s tx] [Es Hin]]. cbn in Es. subst s.
  apply in_map_iff in Hin as [b [Eb Hb]]. apply filter_In in Hb as [Hb1 Hb2]. apply Z.eqb_eq in Hb2.
  apply Hn. apply in_map_iff. exists b. split; [|exact Hb1]. injection Eb as Eb1 _. congruence.
Qed.

Lemma arrived_incl fam r parts P :
  NoDup (map fst fam) -> In (r, parts) fam -> Forall (belongs fam) P -> incl (arrived r P) (numbered 1 parts).
Proof.
  intros Hnd Hin Hall x Hx. unfold arrived in Hx. apply in_map_iff in Hx as [a [<- Ha]].
  apply filter_In in Ha as [Ha1 Ha2]. apply Z.eqb_eq in Ha2. rewrite Forall_forall in Hall.
  destruct (Hall a Ha1) as (p & Hp & _ & Hnum). rewrite Ha2 in Hp.
  rewrite (family_unique fam r parts p Hnd Hin Hp). exact Hnum.
Qed.

(* one more segment: either the message is still incomplete, or it completes and the full text in
   numeric order is returned - never an error *)
Lemma step_Inv fam st P a :
  wf_family fam -> Inv fam st P -> Forall (belongs fam) (P ++ [a]) -> distinct (P ++ [a]) ->
  exists st' o, put_delivery_segmented st 0%Q (a_ref a) (a_seq a) (a_total a) (a_text a) = Ok (st', o)
    /\ Inv fam st' (P ++ [a])
    /\ forall parts, In (a_ref a, parts) fam ->
         o = if Nat.eqb (length (arrived (a_ref a) (P ++ [a]))) (length parts) then Some (concat parts) else None.
Proof.
  intros [Hfn Hf2] [Hnd Hinv] Hall Hdis.
  assert (belongs fam a) as Hbel by (rewrite Forall_forall in Hall; apply Hall, in_or_app; right; left; reflexivity).
  destruct Hbel as (parts & Hfam & Htot & Hnum).
  set (r := a_ref a) in *.
  assert (arrived r (P ++ [a]) = arrived r P ++ [(a_seq a, a_text a)]) as Earr.
  { rewrite arrived_app. unfold arrived at 2. cbn [filter]. fold r. rewrite Z.eqb_refl. reflexivity. }
  pose proof (arrived_keys_NoDup r (P ++ [a]) Hdis) as Hkn. rewrite Earr in Hkn.
  assert (~ In (a_seq a) (map fst (arrived r P))) as Hfresh.
  { rewrite map_app in Hkn. cbn [map fst] in Hkn. apply NoDup_remove_2 in Hkn. rewrite app_nil_r in Hkn. exact Hkn. }
  pose proof (arrived_incl fam r parts (P ++ [a]) Hfn Hfam Hall) as Hincl. rewrite Earr in Hincl.
  assert (length (arrived r P ++ [(a_seq a, a_text a)]) <= length parts)%nat as Hle.
  { rewrite <- (numbered_length 1 parts). apply NoDup_incl_length; [|exact Hincl]. eapply NoDup_map_inv; exact Hkn. }
  rewrite app_length in Hle. cbn [length] in Hle.
  unfold put_delivery_segmented. pose proof (Hinv r) as Hr.
  destruct (dget r st) as [d|] eqn:Ed.
  - (* more segments of a known message *)
    destruct Hr as (Hparts & Hne & Hlt).
    assert (dset (ds_parts d) (a_seq a) (a_text a) = arrived r P ++ [(a_seq a, a_text a)]) as Eset.
    { rewrite Hparts. apply dset_new. apply dget_None_dkeys. exact Hfresh. }
    rewrite Eset, app_length. cbn [length]. rewrite Htot.
    destruct (Nat.eq_dec (length (arrived r P) + 1) (length parts)) as [Efull|Enot].
    + replace (Z.of_nat (length (arrived r P) + 1) =? Z.of_nat (length parts)) with true by (symmetry; apply Z.eqb_eq; lia).
      eexists. eexists. split; [reflexivity|]. split.
      * split; [apply dkeys_ddel_NoDup; exact Hnd|]. intros r2. destruct (Z.eq_dec r2 r) as [->|Hne2].
        -- rewrite dget_ddel_same by exact Hnd. right. exists parts. split; [exact Hfam|]. rewrite Earr, app_length. cbn [length]. lia.
        -- rewrite dget_ddel_other by exact Hne2. specialize (Hinv r2).
           assert (arrived r2 (P ++ [a]) = arrived r2 P) as ->.
           { rewrite arrived_app. unfold arrived at 2. cbn [filter]. fold r.
             destruct (Z.eqb_spec r r2); [congruence|]. cbn. apply app_nil_r. }
           exact Hinv.
      * intros parts' Hp'. rewrite (family_unique fam r parts' parts Hfn Hp' Hfam).
        rewrite Earr, app_length. cbn [length].
        replace (Nat.eqb (length (arrived r P) + 1) (length parts)) with true by (symmetry; apply Nat.eqb_eq; lia).
        f_equal. apply join_complete; [exact Hkn|exact Hincl|rewrite app_length; cbn [length]; lia].
    + replace (Z.of_nat (length (arrived r P) + 1) =? Z.of_nat (length parts)) with false by (symmetry; apply Z.eqb_neq; lia).
      eexists. eexists. split; [reflexivity|]. split.
      * split; [apply dkeys_dset_NoDup; exact Hnd|]. intros r2. destruct (Z.eq_dec r2 r) as [->|Hne2].
        -- rewrite dget_dset_same. cbn [ds_parts]. rewrite Earr. split; [reflexivity|].
           split; [intros E; apply app_eq_nil in E as [_ E]; discriminate|].
           intros parts' Hp'. rewrite (family_unique fam r parts' parts Hfn Hp' Hfam). rewrite app_length. cbn [length]. lia.
        -- rewrite dget_dset_other by exact Hne2. specialize (Hinv r2).
           assert (arrived r2 (P ++ [a]) = arrived r2 P) as ->.
           { rewrite arrived_app. unfold arrived at 2. cbn [filter]. fold r.
             destruct (Z.eqb_spec r r2); [congruence|]. cbn. apply app_nil_r. }
           exact Hinv.
      * intros parts' Hp'. rewrite (family_unique fam r parts' parts Hfn Hp' Hfam).
        rewrite Earr, app_length. cbn [length].
        replace (Nat.eqb (length (arrived r P) + 1) (length parts)) with false by (symmetry; apply Nat.eqb_neq; lia).
        reflexivity.
  - (* first segment of a message (or of a message that completed before - excluded by distinctness) *)
    assert (arrived r P = []) as Eempty.
    { destruct Hr as [E|(p' & Hp' & Hl)]; [exact E|]. rewrite (family_unique fam r p' parts Hfn Hp' Hfam) in Hl. lia. }
    rewrite Eempty in *. cbn [app length] in *. rewrite Htot.
    specialize (Hf2 r parts Hfam).
    replace (Z.of_nat 1 =? Z.of_nat (length parts)) with false by (symmetry; apply Z.eqb_neq; lia).
    eexists. eexists. split; [reflexivity|]. split.
    + split; [apply dkeys_dset_NoDup; exact Hnd|]. intros r2. destruct (Z.eq_dec r2 r) as [->|Hne2].
      * rewrite dget_dset_same. cbn [ds_parts]. rewrite Earr. split; [reflexivity|]. split; [discriminate|].
        intros parts' Hp'. rewrite (family_unique fam r parts' parts Hfn Hp' Hfam). cbn [length]. lia.
      * rewrite dget_dset_other by exact Hne2. specialize (Hinv r2).
        assert (arrived r2 (P ++ [a]) = arrived r2 P) as ->.
        { rewrite arrived_app. unfold arrived at 2. cbn [filter]. fold r.
          destruct (Z.eqb_spec r r2); [congruence|]. cbn. apply app_nil_r. }
        exact Hinv.
    + intros parts' Hp'. rewrite (family_unique fam r parts' parts Hfn Hp' Hfam). rewrite Earr. cbn [length].
      replace (Nat.eqb 1 (length parts)) with false by (symmetry; apply Nat.eqb_neq; lia). reflexivity.
Qed.

Lemma NoDup_app_l {A} (a b : list A) : NoDup (a ++ b) -> NoDup a.
Proof.
  induction a as [|x t IH]; intros H; [constructor|]. cbn [app] in H. inversion_clear H as [|? ? Hn Ht].
  constructor; [intros Hin; apply Hn; apply in_or_app; left; exact Hin|auto].
Qed.

Lemma Inv_init fam : Inv fam [] [].
Proof. split; [constructor|]. intros r. cbn. left. reflexivity. Qed.

Lemma stream_gen fam : wf_family fam -> forall Q P st,
  Inv fam st P -> Forall (belongs fam) (P ++ Q) -> distinct (P ++ Q) ->
  forall k a, nth_error Q k = Some a -> forall parts, In (a_ref a, parts) fam ->
  nth_error (reassemble st Q) k =
  Some (Ok (if Nat.eqb (length (arrived (a_ref a) (P ++ firstn (S k) Q))) (length parts) then Some (concat parts) else None)).
Proof.
  intros Hwf. induction Q as [|a0 Q' IH]; intros P st HI Hall Hdis k a Hk parts Hp; [destruct k; discriminate|].
  assert (P ++ a0 :: Q' = (P ++ [a0]) ++ Q') as Eapp by (rewrite <- app_assoc; reflexivity).
  assert (Forall (belongs fam) (P ++ [a0])) as Hall1 by (rewrite Eapp in Hall; apply Forall_app in Hall; tauto).
  assert (distinct (P ++ [a0])) as Hdis1.
  { unfold distinct in *. rewrite Eapp, map_app in Hdis. eapply NoDup_app_l; exact Hdis. }
  destruct (step_Inv fam st P a0 Hwf HI Hall1 Hdis1) as (st' & o & Hput & HI' & Hout).
  destruct a0 as [[[r s] tot] t]. cbn [reassemble]. cbn [a_ref a_seq a_total a_text fst snd] in Hput. rewrite Hput.
  destruct k as [|k'].
  - cbn [nth_error] in *. injection Hk as <-. cbn [firstn]. rewrite (Hout parts Hp). reflexivity.
  - cbn [nth_error] in *. rewrite Eapp in Hall, Hdis.
    rewrite (IH (P ++ [(r, s, tot, t)]) st' HI' Hall Hdis k' a Hk parts Hp).
    cbn [firstn]. rewrite <- app_assoc. reflexivity.
Qed.

(* C09, stream form: for any family of messages with pairwise distinct references, each cut into at
   least 2 segments, and ANY arrival order / interleaving in which no segment arrives twice, the k-th
   arrival yields the complete text (segments concatenated in numeric order) exactly when it is the last
   missing segment of its message, and nothing otherwise; no arrival fails *)
Theorem reassembly_any_order fam arr :
  wf_family fam -> Forall (belongs fam) arr -> distinct arr ->
  forall k a, nth_error arr k = Some a -> forall parts, In (a_ref a, parts) fam ->
  nth_error (reassemble [] arr) k =
  Some (Ok (if Nat.eqb (length (arrived (a_ref a) (firstn (S k) arr))) (length parts) then Some (concat parts) else None)).
Proof.
  intros Hwf Hall Hdis k a Hk parts Hp.
  exact (stream_gen fam Hwf arr [] [] (Inv_init fam) Hall Hdis k a Hk parts Hp).
Qed.


(* ---- the store after a stream; a reference is free again once its message is complete ---- *)

Fixpoint final_store (st : dstore) (arrivals : list arrival) : dstore :=
  match arrivals with
  | [] => st
  | (ref, seq, total, t) :: rest =>
    match put_delivery_segmented st 0%Q ref seq total t with
    | Ok (st', _) => final_store st' rest
    | Err _ => final_store st rest
    end
  end.

Lemma reassemble_app st A : forall B,
  reassemble st (A ++ B) = reassemble st A ++ reassemble (final_store st A) B.
Proof.
  revert st. induction A as [|[[[r s] tot] t] A' IH]; intros st B; [reflexivity|].
  cbn [app reassemble final_store].
  destruct (put_delivery_segmented st 0%Q r s tot t) as [[st' o]|e]; cbn [app]; rewrite IH; reflexivity.
Qed.

Lemma final_Inv fam : wf_family fam -> forall Q P st,
  Inv fam st P -> Forall (belongs fam) (P ++ Q) -> distinct (P ++ Q) -> Inv fam (final_store st Q) (P ++ Q).
Proof.
  intros Hwf. induction Q as [|a0 Q' IH]; intros P st HI Hall Hdis; [rewrite app_nil_r; exact HI|].
  assert (P ++ a0 :: Q' = (P ++ [a0]) ++ Q') as Eapp by (rewrite <- app_assoc; reflexivity).
  assert (Forall (belongs fam) (P ++ [a0])) as Hall1 by (rewrite Eapp in Hall; apply Forall_app in Hall; tauto).
  assert (distinct (P ++ [a0])) as Hdis1.
  { unfold distinct in *. rewrite Eapp, map_app in Hdis. eapply NoDup_app_l; exact Hdis. }
  destruct (step_Inv fam st P a0 Hwf HI Hall1 Hdis1) as (st' & o & Hput & HI' & _).
  destruct a0 as [[[r s] tot] t]. cbn [final_store]. cbn [a_ref a_seq a_total a_text fst snd] in Hput. rewrite Hput.
  rewrite Eapp. apply IH; [exact HI'|rewrite <- Eapp; exact Hall|rewrite <- Eapp; exact Hdis].
Qed.

(* every message of which a segment has arrived has arrived in full *)
Definition complete (fam : family) (P : list arrival) : Prop :=
  forall r, arrived r P = [] \/ exists parts, In (r, parts) fam /\ length (arrived r P) = length parts.

Lemma dget_all_None {V} (d : dict V) : (forall r, dget r d = None) -> d = [].
Proof.
  destruct d as [|[k v] t]; intros H; [reflexivity|]. specialize (H k). cbn [dget] in H. rewrite Z.eqb_refl in H. discriminate.
Qed.

Lemma Inv_complete_empty fam st P : Inv fam st P -> complete fam P -> st = [].
Proof.
  intros [_ Hinv] Hc. apply dget_all_None. intros r. specialize (Hinv r). specialize (Hc r).
  destruct (dget r st) as [d|]; [|reflexivity]. destruct Hinv as (_ & Hne & Hlt).
  destruct Hc as [He|(parts & Hp & Hl)]; [contradiction|]. specialize (Hlt parts Hp). rewrite Hl in Hlt.
  exfalso. exact (Nat.lt_irrefl _ Hlt).
Qed.

(* once every message begun has been completed the store is empty again ... *)
Theorem store_empty_when_complete fam arr :
  wf_family fam -> Forall (belongs fam) arr -> distinct arr -> complete fam arr -> final_store [] arr = [].
Proof.
  intros Hwf Hall Hdis Hc.
  exact (Inv_complete_empty fam _ _ (final_Inv fam Hwf arr [] [] (Inv_init fam) Hall Hdis) Hc).
Qed.

(* ... so whatever arrives afterwards - including new messages under the SAME references - is treated
   exactly as on a fresh correlator: reassembly_any_order applies to the later stream on its own *)
Theorem reference_free_after_completion fam arr later :
  wf_family fam -> Forall (belongs fam) arr -> distinct arr -> complete fam arr ->
  reassemble [] (arr ++ later) = reassemble [] arr ++ reassemble [] later.
Proof.
  intros Hwf Hall Hdis Hc. rewrite reassemble_app, (store_empty_when_complete fam arr Hwf Hall Hdis Hc). reflexivity.
Qed.
