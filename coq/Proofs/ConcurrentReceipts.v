(* C02 for ANY NUMBER of segmented messages outstanding at the same time: the per-message invariant GI of HandlersProofs.v only reads
   the message's own keys (request store and segment store at its sequence numbers, status store at its reference, delivery store at
   its message ids); footprints of put / accepting response / receipt; lift of the one-message theorem to every interleaving. *)
From Coq Require Import ZArith QArith List Bool Lia.
Import ListNotations.
Require Import AV.Generated.ExnOrder AV.Generated.SmppConsts AV.Generated.Handled
               AV.Model.Base AV.Model.PyDict AV.Model.Limiter AV.Model.Correlator AV.Model.Seq AV.Model.Handlers
               AV.Proofs.PyDictProofs AV.Proofs.HandlersProofs AV.Proofs.ConcurrentProofs.
Open Scope Z_scope.

(* ---------- footprints, with the delivery store ---------- *)
Definition fp2 (key dkey : Z) (stat_ok : Z -> Prop) (s s' : hstate) : Prop :=
  (forall k', k' <> key -> dget k' (c_store (h_corr s')) = dget k' (c_store (h_corr s)))
  /\ (forall k', k' <> key -> dget k' (c_seg (h_corr s')) = dget k' (c_seg (h_corr s)))
  /\ (forall ref, stat_ok ref -> dget ref (c_stat (h_corr s')) = dget ref (c_stat (h_corr s)))
  /\ (forall k', k' <> dkey -> dget k' (h_deliv s') = dget k' (h_deliv s)).

Lemma put_fp2 s m dkey : fp2 (sm_seq m) dkey (fun key => key <> put_key (h_corr s) m) s (fst (hstep s (HPut m))).
Proof.
  destruct (put_footprint s m) as [(F1 & F2 & F3 & _) _]. split; [exact F1|]. split; [exact F2|]. split; [exact F3|].
  intros k' _. reflexivity.
Qed.

Lemma response_deliv s r mid : forall k', k' <> mid -> dget k' (h_deliv (fst (handle_response s r mid))) = dget k' (h_deliv s).
Proof.
  intros k' Hne. unfold handle_response.
  destruct (negb (mem (rs_cmd r) handled_response_commands)); [reflexivity|].
  destruct (if rs_cmd r =? SmppCommand_GENERIC_NACK then Ok None
            else match lookup (rs_cmd r) response_command_map with Some c => Ok (Some c) | None => Err EXN_KeyError end) as [oc|e0]; [|reflexivity].
  destruct (get_pop (h_corr s) r) as [c1 oe].
  destruct oe as [e|]; [|reflexivity].
  destruct (match oc with Some c => negb (sm_cmd (e_msg e) =? c) | None => false end); [reflexivity|].
  destruct (((rs_cmd r =? SmppCommand_SUBMIT_SM_RESP) || (rs_cmd r =? SmppCommand_GENERIC_NACK)) && (sm_cmd (e_msg e) =? SmppCommand_SUBMIT_SM)); [|reflexivity].
  destruct (get_segmented c1 (rs_seq r) false) as [[c2 oss] code].
  assert (forall s3 : hstate,
            (h_deliv s3 = h_deliv s \/ exists now eid, h_deliv s3 = put_delivery (h_deliv s) now mid (e_msg e) eid) ->
            dget k' (h_deliv s3) = dget k' (h_deliv s)) as Hs3.
  { intros s3 [E|(now & eid & E)]; rewrite E; [reflexivity|]. unfold put_delivery. apply dget_dset_other. exact Hne. }
  destruct (mem (rs_status r) throttled_statuses);
    destruct ((rs_cmd r =? SmppCommand_SUBMIT_SM_RESP) && (rs_status r =? SmppCommandStatus_ESME_ROK));
    (destruct oss as [ss|];
     [ destruct (code =? STATUS_SENDING); [apply Hs3; cbn [fst h_deliv]; eauto|];
       destruct (code =? STATUS_EXPIRED); [apply Hs3; cbn [fst h_deliv]; eauto|];
       destruct (ss_last_resp ss); apply Hs3; cbn [fst h_deliv]; eauto
     | destruct (0 <? snd (sm_sar (e_msg e))); apply Hs3; cbn [fst h_deliv]; eauto ]).
Qed.

Lemma response_fp2 s r mid :
  fp2 (rs_seq r) mid (fun ref => forall rf ss, dget (rs_seq r) (c_seg (h_corr s)) = Some (rf, ss) -> rf <> ref) s (fst (handle_response s r mid)).
Proof.
  destruct (response_footprint s r mid) as (F1 & F2 & F3 & _). split; [exact F1|]. split; [exact F2|]. split; [exact F3|].
  apply response_deliv.
Qed.

Lemma get_segmented_rm_foot c sq :
  let c' := fst (fst (get_segmented c sq true)) in
  c_store c' = c_store c /\ (forall k', k' <> sq -> dget k' (c_seg c') = dget k' (c_seg c))
  /\ (forall ref, (forall rf ss, dget sq (c_seg c) = Some (rf, ss) -> rf <> ref) -> dget ref (c_stat c') = dget ref (c_stat c)).
Proof.
  unfold get_segmented. destruct (dget sq (c_seg c)) as [[ref sseq]|] eqn:Eg; [|cbn [fst]; auto].
  cbn [with_seg c_stat].
  destruct (dget ref (c_stat c)) as [ss|].
  - pose proof (cumulated_foot (with_seg c (ddel sq (c_seg c))) ref ss) as (F1 & F2 & F3).
    destruct (cumulated (with_seg c (ddel sq (c_seg c))) ref ss) as [c2 code]. cbn [fst with_seg c_store c_seg c_stat] in *.
    split; [exact F1|]. split; [intros k' Hne; rewrite F2; apply dget_ddel_other; exact Hne|].
    intros ref' Hc. apply F3. intros ->. exact (Hc ref sseq eq_refl eq_refl).
  - cbn [fst with_seg c_store c_seg c_stat]. split; [reflexivity|]. split; [intros k' Hne; apply dget_ddel_other; exact Hne|]. reflexivity.
Qed.

Lemma get_delivery_foot c d r e :
  dget (rc_id r) d = Some e ->
  let c' := fst (fst (get_delivery c d r)) in
  c_store c' = c_store c /\ c_seg c' = c_seg c
  /\ (forall ref, (forall rf ss, dget (sm_seq (e_msg e)) (c_seg c) = Some (rf, ss) -> rf <> ref) -> dget ref (c_stat c') = dget ref (c_stat c))
  /\ snd (fst (get_delivery c d r)) = ddel (rc_id r) d /\ snd (get_delivery c d r) = Some (e_msg e).
Proof.
  intros Hd. unfold get_delivery. rewrite Hd. cbv zeta.
  destruct (is_segment (e_msg e)); [|cbn [fst snd]; auto 6].
  destruct (dget (sm_seq (e_msg e)) (c_seg c)) as [[ref sseq]|] eqn:Eg; [|cbn [fst snd]; auto 6].
  destruct (dget ref (c_stat c)) as [ss|]; [|cbn [fst snd]; auto 6].
  cbn [fst snd with_stat c_store c_seg c_stat]. split; [reflexivity|]. split; [reflexivity|]. split; [|split; reflexivity].
  intros ref' Hc. apply dget_dset_other. intros ->. exact (Hc ref sseq eq_refl eq_refl).
Qed.

Lemma receipt_fp2 s rc e :
  dget (rc_id rc) (h_deliv s) = Some e ->
  fp2 (sm_seq (e_msg e)) (rc_id rc) (fun ref => forall rf ss, dget (sm_seq (e_msg e)) (c_seg (h_corr s)) = Some (rf, ss) -> rf <> ref)
      s (fst (handle_receipt s rc true)).
Proof.
  intros Hd. unfold handle_receipt. cbn [negb].
  pose proof (get_delivery_foot (h_corr s) (h_deliv s) rc e Hd) as G. cbv zeta in G.
  destruct (get_delivery (h_corr s) (h_deliv s) rc) as [[c1 d1] om]. cbn [fst snd] in G. destruct G as (G1 & G2 & G3 & -> & ->).
  assert (let c2 := fst (fst (if is_segment (e_msg e) then get_segmented c1 (sm_seq (e_msg e)) true else (c1, None, 0))) in
          c_store c2 = c_store c1 /\ (forall k', k' <> sm_seq (e_msg e) -> dget k' (c_seg c2) = dget k' (c_seg c1))
          /\ (forall ref, (forall rf ss, dget (sm_seq (e_msg e)) (c_seg c1) = Some (rf, ss) -> rf <> ref) -> dget ref (c_stat c2) = dget ref (c_stat c1))) as S
    by (destruct (is_segment (e_msg e)); [apply get_segmented_rm_foot|cbn [fst]; auto]).
  cbv zeta in S.
  destruct (if is_segment (e_msg e) then get_segmented c1 (sm_seq (e_msg e)) true else (c1, None, 0)) as [[c2 oss] code]. cbn [fst] in S. destruct S as (S1 & S2 & S3).
  assert (forall s3 : hstate, h_corr s3 = c2 -> h_deliv s3 = ddel (rc_id rc) (h_deliv s) ->
          fp2 (sm_seq (e_msg e)) (rc_id rc) (fun ref => forall rf ss, dget (sm_seq (e_msg e)) (c_seg (h_corr s)) = Some (rf, ss) -> rf <> ref) s s3) as Hs3.
  { intros s3 Hc Hdl. unfold fp2. rewrite Hc, Hdl, S1, G1.
    split; [reflexivity|]. split; [intros k' Hne; rewrite (S2 k' Hne), G2; reflexivity|]. split.
    - intros ref Hok. rewrite S3; [apply G3; exact Hok|]. rewrite G2. exact Hok.
    - intros k' Hne. apply dget_ddel_other. exact Hne. }
  destruct oss as [ss|].
  - destruct ((code =? STATUS_SENDING) || (code =? STATUS_SENT)); [apply Hs3; reflexivity|].
    destruct (ss_last_rcpt ss); apply Hs3; reflexivity.
  - apply Hs3; reflexivity.
Qed.

(* ---------- the frame lemma for GI ---------- *)
Lemma GI_frame r log k sq md uid s s' ph lrc :
  GI r log k sq md uid s ph lrc ->
  (forall i, (i < k)%nat -> dget (sq i) (c_store (h_corr s')) = dget (sq i) (c_store (h_corr s))) ->
  (forall i, (i < k)%nat -> dget (sq i) (c_seg (h_corr s')) = dget (sq i) (c_seg (h_corr s))) ->
  dget (HandlersProofs.K r sq) (c_stat (h_corr s')) = dget (HandlersProofs.K r sq) (c_stat (h_corr s)) ->
  (forall i, (i < k)%nat -> dget (md i) (h_deliv s') = dget (md i) (h_deliv s)) ->
  (ph 0%nat <> PNot -> (exists j, (j < k)%nat /\ ph j = PNot) -> dget r (c_cur (h_corr s')) = dget r (c_cur (h_corr s))) ->
  NoDup (dkeys (c_seg (h_corr s'))) -> NoDup (dkeys (c_stat (h_corr s'))) -> NoDup (dkeys (h_deliv s')) -> NoDup (dkeys (c_store (h_corr s'))) ->
  GI r log k sq md uid s' ph lrc.
Proof.
  intros [(Ha & Hb & Hc & Hd & He & Hl & N1 & N2 & N3 & N4) Hcur] F1 F2 F3 F4 F5 M1 M2 M3 M4. split.
  - unfold GI0.
    split; [intros i Hi; rewrite (F1 i Hi); exact (Ha i Hi)|].
    split; [intros i Hi; rewrite (F2 i Hi); exact (Hb i Hi)|].
    split; [rewrite F3; exact Hc|].
    split; [intros i Hi; rewrite (F4 i Hi); exact (Hd i Hi)|].
    split; [exact He|]. split; [exact Hl|]. split; [exact M1|]. split; [exact M2|]. split; [exact M3|exact M4].
  - intros H0 Hex. rewrite (F5 H0 Hex). exact (Hcur H0 Hex).
Qed.

(* ---------- one step of one message, with what the hook gets ---------- *)
Lemma local_step r log k sq md uid :
  (2 <= k)%nat -> (k <= 255)%nat ->
  (forall i j, (i < k)%nat -> (j < k)%nat -> sq i = sq j -> i = j) ->
  (forall i j, (i < k)%nat -> (j < k)%nat -> md i = md j -> i = j) ->
  forall s ph lrc g,
  GI r log k sq md uid s ph lrc -> first_first k ph -> enabled k ph g ->
  exists s' out, hstep s (conc r log k sq md uid g) = (s', out) /\ agrees (expected log k ph lrc g) out
                 /\ GI r log k sq md uid s' (fst (after ph lrc g)) (snd (after ph lrc g)) /\ first_first k (fst (after ph lrc g)).
Proof.
  intros Hk Hk255 Hsq Hmd s ph lrc g HG Hff Hen. destruct g as [i|i u|i u e]; cbn [enabled] in Hen.
  - destruct Hen as (Hi & Hp & Hord).
    assert (i = 0%nat -> forall j, (j < k)%nat -> ph j = PNot) as Hfirst by (intros ->; apply Hff; exact Hp).
    destruct (put_step r log k sq md uid Hk Hk255 Hsq s ph lrc i HG Hi Hp Hfirst Hord) as (s' & Hs & HG').
    exists s', []. cbn [conc]. split; [exact Hs|]. split; [exact I|]. split; [exact HG'|].
    cbn [after fst]. intros Hz j Hj. unfold HandlersProofs.upd in Hz. destruct (Nat.eqb 0 i) eqn:E0; [discriminate|].
    apply Nat.eqb_neq in E0. exfalso. apply (Hord ltac:(lia)). exact Hz.
  - destruct Hen as [Hi Hp]. destruct (resp_ok_step r log k sq md uid Hk Hk255 Hsq Hmd s ph lrc i u HG Hi Hp) as (s' & out & Hs & HG').
    exists s', out. cbn [conc hstep]. split; [exact Hs|]. split; [exact I|]. split; [exact HG'|].
    cbn [after fst]. intros Hz j Hj. unfold HandlersProofs.upd in Hz. destruct (Nat.eqb 0 i) eqn:E0; [discriminate|].
    specialize (Hff Hz i Hi). rewrite Hff in Hp. discriminate.
  - destruct Hen as (Hi & Hp & He).
    destruct (receipt_step r log k sq md uid Hk Hk255 Hsq Hmd s ph lrc i {| rc_uid := u; rc_id := md i; rc_err := e |} HG Hi Hp eq_refl He) as (s' & HG' & Hs).
    cbn [rc_uid rc_err] in *. eexists s', _. cbn [conc hstep]. split; [exact Hs|]. split; [cbn [agrees expected after]; reflexivity|].
    split; [exact HG'|].
    cbn [after fst]. intros Hz j Hj. unfold HandlersProofs.upd in Hz. destruct (Nat.eqb 0 i) eqn:E0; [discriminate|].
    specialize (Hff Hz i Hi). rewrite Hff in Hp. discriminate.
Qed.

(* what an enabled event of a message can touch, in terms of that message's own keys *)
Lemma local_footprint r log k sq md uid s ph lrc g :
  (2 <= k)%nat -> (k <= 255)%nat ->
  GI r log k sq md uid s ph lrc -> enabled k ph g ->
  exists i, (i < k)%nat /\ fp2 (sq i) (md i) (fun key => key <> HandlersProofs.K r sq) s (fst (hstep s (conc r log k sq md uid g)))
            /\ cur_foot (fun ref => match g with GPut _ => ref <> r | _ => True end) s (fst (hstep s (conc r log k sq md uid g))).
Proof.
  intros Hk Hk255 HG Hen. destruct g as [i|i u|i u e]; cbn [enabled] in Hen; cbn [conc].
  - destruct Hen as (Hi & Hp & Hord). exists i. split; [exact Hi|].
    pose proof (put_fp2 s (seg r log k sq uid i) (md i)) as F. unfold seg in F at 1. cbn [sm_seq] in F.
    destruct (put_footprint s (seg r log k sq uid i)) as [_ C]. unfold seg in C at 1. cbn [sm_sar fst] in C. split; [|exact C].
    assert (put_key (h_corr s) (seg r log k sq uid i) = HandlersProofs.K r sq) as Ek.
    { unfold put_key, seg. cbn [sm_sar sm_seq]. destruct (Nat.eq_dec i 0) as [->|N0].
      - change (1 <? Z.of_nat 0 + 1) with false. cbv iota. reflexivity.
      - replace (1 <? Z.of_nat i + 1) with true by (symmetry; apply Z.ltb_lt; lia).
        destruct HG as [(_ & _ & Hc & _) Hcur].
        rewrite (Hcur (Hord N0) (ex_intro _ i (conj Hi Hp))).
        assert (forallb (fun a => is_not (ph a)) (idx k) = false) as Fn.
        { apply (forallb_idx_false k Hk Hk255 _ 0%nat ltac:(lia)). specialize (Hord N0). destruct (ph 0%nat); try reflexivity. contradiction. }
        assert (forallb (fun a => is_done (ph a)) (idx k) = false) as Fd by (apply (forallb_idx_false k Hk Hk255 _ i Hi); rewrite Hp; reflexivity).
        rewrite Fn, Fd in Hc. cbn [orb] in Hc. destruct Hc as (cell & -> & _). reflexivity. }
    rewrite Ek in F. exact F.
  - destruct Hen as (Hi & Hp). exists i. split; [exact Hi|].
    pose proof (response_fp2 s (ok_resp sq i u) (md i)) as (F1 & F2 & F3 & F4). unfold ok_resp in F1, F2, F3. cbn [rs_seq] in F1, F2, F3.
    destruct HG as [(_ & Hb & _) _]. specialize (Hb i Hi). rewrite Hp in Hb.
    cbn [hstep]. split.
    + split; [exact F1|]. split; [exact F2|]. split; [|exact F4].
      intros ref Hne. apply F3. intros rf ss E. rewrite Hb in E. injection E as <- _. congruence.
    + intros ref _. rewrite response_cur. reflexivity.
  - destruct Hen as (Hi & Hp & _). exists i. split; [exact Hi|].
    destruct HG as [(_ & Hb & _ & Hd & _) _]. specialize (Hb i Hi). rewrite Hp in Hb. specialize (Hd i Hi). rewrite Hp in Hd.
    destruct Hd as (e0 & Hd & Hm).
    pose proof (receipt_fp2 s {| rc_uid := u; rc_id := md i; rc_err := e |} e0 Hd) as (F1 & F2 & F3 & F4).
    rewrite Hm in F1, F2, F3. unfold seg in F1, F2, F3. cbn [sm_seq rc_id] in F1, F2, F3, F4.
    cbn [hstep]. split.
    + split; [exact F1|]. split; [exact F2|]. split; [|exact F4].
      intros ref Hne. apply F3. intros rf ss E. rewrite Hb in E. injection E as <- _. congruence.
    + intros ref _. rewrite receipt_cur. reflexivity.
Qed.

(* ---------- several messages ---------- *)
Record mdesc2 := { m2_r : Z; m2_log : Z; m2_k : nat; m2_sq : nat -> Z; m2_md : nat -> Z; m2_uid : nat -> Z }.

Section ConcurrentReceipts.
  Variable n : nat.
  Variable D : nat -> mdesc2.
  Hypothesis D_ok : forall j, (j < n)%nat ->
    (2 <= m2_k (D j) <= 255)%nat /\ 0 <= m2_r (D j) < 65536
    /\ (forall a b, (a < m2_k (D j))%nat -> (b < m2_k (D j))%nat -> m2_sq (D j) a = m2_sq (D j) b -> a = b)
    /\ (forall a b, (a < m2_k (D j))%nat -> (b < m2_k (D j))%nat -> m2_md (D j) a = m2_md (D j) b -> a = b).
  (* distinct sequence numbers and SMSC message ids among the outstanding messages; their references may coincide *)
  Hypothesis D_sep : forall i j, (i < n)%nat -> (j < n)%nat -> i <> j ->
    (forall a b, (a < m2_k (D i))%nat -> (b < m2_k (D j))%nat -> m2_sq (D i) a <> m2_sq (D j) b)
    /\ (forall a b, (a < m2_k (D i))%nat -> (b < m2_k (D j))%nat -> m2_md (D i) a <> m2_md (D j) b).

  Definition GIj (j : nat) := GI (m2_r (D j)) (m2_log (D j)) (m2_k (D j)) (m2_sq (D j)) (m2_md (D j)) (m2_uid (D j)).
  Definition MI2 (s : hstate) (PH : nat -> nat -> phase) (LRC : nat -> option (Z * Z)) : Prop :=
    forall j, (j < n)%nat -> GIj j s (PH j) (LRC j) /\ first_first (m2_k (D j)) (PH j).

  Definition gev2 := (nat * HandlersProofs.gev)%type.
  Definition gconc2 (e : gev2) : hevent :=
    let d := D (fst e) in conc (m2_r d) (m2_log d) (m2_k d) (m2_sq d) (m2_md d) (m2_uid d) (snd e).
  (* message i is in the middle of storing its segments *)
  Definition storing2 (PH : nat -> nat -> phase) (i : nat) : Prop :=
    PH i 0%nat <> PNot /\ exists a, (a < m2_k (D i))%nat /\ PH i a = PNot.
  (* the sender stores the segments of one message before it turns to the next with the same reference *)
  Definition genabled2 (PH : nat -> nat -> phase) (e : gev2) : Prop :=
    (fst e < n)%nat /\ enabled (m2_k (D (fst e))) (PH (fst e)) (snd e)
    /\ match snd e with
       | GPut _ => forall i, (i < n)%nat -> i <> fst e -> m2_r (D i) = m2_r (D (fst e)) -> ~ storing2 PH i
       | _ => True
       end.
  Definition gafter2 (PH : nat -> nat -> phase) (LRC : nat -> option (Z * Z)) (e : gev2) :=
    let j := fst e in (ConcurrentProofs.upd PH j (fst (after (PH j) (LRC j) (snd e))), ConcurrentProofs.upd LRC j (snd (after (PH j) (LRC j) (snd e)))).
  Definition gexpected2 (PH : nat -> nat -> phase) (LRC : nat -> option (Z * Z)) (e : gev2) : option (list hout) :=
    let j := fst e in expected (m2_log (D j)) (m2_k (D j)) (PH j) (LRC j) (snd e).
  Fixpoint gvalid2 PH LRC (gs : list gev2) : Prop :=
    match gs with [] => True | e :: t => genabled2 PH e /\ gvalid2 (fst (gafter2 PH LRC e)) (snd (gafter2 PH LRC e)) t end.
  Fixpoint gspec2 PH LRC (gs : list gev2) : list (option (list hout)) :=
    match gs with [] => [] | e :: t => gexpected2 PH LRC e :: gspec2 (fst (gafter2 PH LRC e)) (snd (gafter2 PH LRC e)) t end.

  Lemma g2_step s PH LRC e :
    MI2 s PH LRC -> genabled2 PH e ->
    exists s' out, hstep s (gconc2 e) = (s', out) /\ agrees (gexpected2 PH LRC e) out /\ MI2 s' (fst (gafter2 PH LRC e)) (snd (gafter2 PH LRC e)).
  Proof.
    intros HM (Hj & Hen & Hdisc). destruct e as [j g]. cbn [fst snd] in *.
    destruct (D_ok j Hj) as ([Hk Hk255] & Hrj & Hsq & Hmd). destruct (HM j Hj) as [HGj Hffj].
    destruct (local_step _ _ _ _ _ _ Hk Hk255 Hsq Hmd s (PH j) (LRC j) g HGj Hffj Hen) as (s' & out & Hs & Hag & HG' & Hff').
    destruct (local_footprint _ _ _ _ _ _ s (PH j) (LRC j) g Hk Hk255 HGj Hen) as (a & Ha & (F1 & F2 & F3 & F4) & F5).
    exists s', out. split; [exact Hs|]. split; [exact Hag|].
    unfold gafter2. cbn [fst snd]. intros i Hi. destruct (Nat.eq_dec i j) as [->|Hne].
    - unfold GIj. rewrite !ConcurrentProofs.upd_same. split; assumption.
    - unfold GIj. rewrite !ConcurrentProofs.upd_other by exact Hne.
      destruct (HM i Hi) as [HGi Hffi]. split; [|exact Hffi].
      unfold gconc2 in Hs. cbn [fst snd] in Hs. rewrite Hs in F1, F2, F3, F4, F5. cbn [fst] in F1, F2, F3, F4, F5.
      destruct (D_sep i j Hi Hj Hne) as (Hsqd & Hmdd). destruct (D_ok i Hi) as ([Hki _] & Hri & _).
      destruct HG' as [(_ & _ & _ & _ & _ & _ & N1 & N2 & N3 & N4) _].
      apply (GI_frame _ _ _ _ _ _ s s' _ _ HGi).
      + intros b Hb. apply F1. apply Hsqd; assumption.
      + intros b Hb. apply F2. apply Hsqd; assumption.
      + apply F3. unfold HandlersProofs.K. apply skey_inj; [exact Hri|exact Hrj|]. apply Hsqd; lia.
      + intros b Hb. apply F4. apply Hmdd; assumption.
      + intros H0 Hex. apply F5. destruct g as [x|x u|x u e]; try exact I.
        intros Er. apply (Hdisc i Hi Hne Er). split; assumption.
      + exact N1.
      + exact N2.
      + exact N3.
      + exact N4.
  Qed.

  Theorem g2_run : forall gs s PH LRC, MI2 s PH LRC -> gvalid2 PH LRC gs ->
    Forall2 agrees (gspec2 PH LRC gs) (HandlersProofs.hrun_each s (map gconc2 gs)).
  Proof.
    induction gs as [|e t IH]; intros s PH LRC HM Hv; [constructor|].
    cbn [gvalid2] in Hv. destruct Hv as [Hen Hv]. cbn [map gspec2 HandlersProofs.hrun_each].
    destruct (g2_step s PH LRC e HM Hen) as (s' & out & Hs & Hag & HM'). rewrite Hs. cbn [fst snd].
    constructor; [exact Hag|]. apply (IH s' _ _ HM' Hv).
  Qed.

  Fixpoint proj2 (j : nat) (gs : list gev2) : list HandlersProofs.gev :=
    match gs with [] => [] | (i, g) :: t => if Nat.eqb i j then g :: proj2 j t else proj2 j t end.

  Fixpoint pick2 {A} (j : nat) (gs : list gev2) (outs : list A) : list A :=
    match gs, outs with
    | (i, _) :: t, o :: os => if Nat.eqb i j then o :: pick2 j t os else pick2 j t os
    | _, _ => []
    end.

  Lemma projection2 j : forall gs PH LRC, gvalid2 PH LRC gs ->
    valid (m2_k (D j)) (PH j) (LRC j) (proj2 j gs)
    /\ pick2 j gs (gspec2 PH LRC gs) = spec_outs (m2_log (D j)) (m2_k (D j)) (PH j) (LRC j) (proj2 j gs).
  Proof.
    induction gs as [|[i g] t IH]; intros PH LRC Hv; [split; [exact I|reflexivity]|].
    cbn [gvalid2] in Hv. destruct Hv as [(Hi & Hen & _) Hv]. cbn [fst snd] in Hi, Hen.
    specialize (IH _ _ Hv). unfold gafter2 in IH. cbn [fst snd] in IH.
    cbn [proj2 gspec2 pick2]. destruct (Nat.eqb_spec i j) as [->|Hne].
    - rewrite !ConcurrentProofs.upd_same in IH. destruct IH as [IH1 IH2]. cbn [valid spec_outs]. split; [split; assumption|].
      unfold gexpected2. cbn [fst snd]. f_equal. exact IH2.
    - rewrite !ConcurrentProofs.upd_other in IH by congruence. exact IH.
  Qed.

  Lemma pick_Forall2 {A B} (R : A -> B -> Prop) j : forall gs (xs : list A) (ys : list B),
    Forall2 R xs ys -> Forall2 R (pick2 j gs xs) (pick2 j gs ys).
  Proof.
    induction gs as [|[i g] t IH]; intros xs ys H; [destruct xs, ys; constructor|].
    destruct H as [|x y xs ys Hxy H]; [constructor|]. cbn [pick2]. destruct (Nat.eqb i j); [constructor; [exact Hxy|apply IH; exact H]|apply IH; exact H].
  Qed.

  Lemma MI2_init : MI2 hinit (fun _ _ => PNot) (fun _ => None).
  Proof. intros j Hj. destruct (D_ok j Hj) as ([Hk Hk255] & _). split; [apply GI_init; assumption|intros _ i _; reflexivity]. Qed.

  (* the receipts of message j reach the hook exactly as if message j were the only one: placeholders until the receipt that
     completes it, then one receipt event with its identity - whatever the other messages' puts, responses and receipts do in between *)
  Theorem concurrent_receipts gs j :
    gvalid2 (fun _ _ => PNot) (fun _ => None) gs -> (j < n)%nat ->
    valid (m2_k (D j)) (fun _ => PNot) None (proj2 j gs)
    /\ Forall2 agrees (spec_outs (m2_log (D j)) (m2_k (D j)) (fun _ => PNot) None (proj2 j gs))
                      (pick2 j gs (HandlersProofs.hrun_each hinit (map gconc2 gs))).
  Proof.
    intros Hv Hj. destruct (projection2 j gs _ _ Hv) as [Pv Pe]. split; [exact Pv|].
    rewrite <- Pe. apply pick_Forall2. apply (g2_run gs hinit _ _ MI2_init Hv).
  Qed.
End ConcurrentReceipts.
