(* Lemmas about the GSM 03.38 codec model (C10). *)
From Coq Require Import ZArith List Bool Lia.
Import ListNotations.
Require Import AV.Generated.GsmTables AV.Generated.ExnOrder AV.Model.Base AV.Model.Codec AV.Spec.Gsm0338.
Open Scope Z_scope.

(* ---------- generic association-list facts ---------- *)

Lemma lookup_In k m v : lookup k m = Some v -> In (k, v) m.
Proof.
  induction m as [|[k' v'] m IH]; rewrite ?lookup_nil, ?lookup_cons; intros H; [discriminate|].
  destruct (Z.eqb_spec k k') as [->|Hne].
  - injection H as ->. left; reflexivity.
  - right; auto.
Qed.

Lemma lookup_None_keys k m : lookup k m = None -> forall v, ~ In (k, v) m.
Proof.
  induction m as [|[k' v'] m IH]; rewrite ?lookup_nil, ?lookup_cons; intros H v Hin; [destruct Hin|].
  destruct (Z.eqb_spec k k') as [->|Hne]; [discriminate|].
  destruct Hin as [Heq|Hin]; [injection Heq as <- _; congruence | eapply IH; eauto].
Qed.

Lemma forallb_In {A} (f : A -> bool) l x : forallb f l = true -> In x l -> f x = true.
Proof. intros H Hin. rewrite forallb_forall in H. auto. Qed.

Lemma opt_eqb_eq a b : opt_eqb a b = true -> a = b.
Proof.
  destruct a, b; cbn; intros H; try discriminate; try reflexivity.
  apply Z.eqb_eq in H; congruence.
Qed.

(* ---------- finite table facts (complete: the domain is the generated table) ---------- *)

Definition basic_entry_ok (p : Z * Z) : bool :=
  let '(c, code) := p in
  negb (code =? ESCAPE) && opt_eqb (lookup code gsm_basic_decode_map) (Some c)
  && (0 <=? code) && (code <? 128).

Definition ext_entry_ok (p : Z * Z) : bool :=
  let '(c, code) := p in
  negb (code =? ESCAPE) && opt_eqb (lookup code gsm_extended_decode_map) (Some c)
  && (0 <=? code) && (code <? 128).

Lemma basic_enc_table_ok : forallb basic_entry_ok gsm_basic_encode_map = true.
Proof. vm_compute. reflexivity. Qed.

Lemma ext_enc_table_ok : forallb ext_entry_ok gsm_extended_encode_map = true.
Proof. vm_compute. reflexivity. Qed.

Lemma escape_is_septet : (0 <=? ESCAPE) && (ESCAPE <? 128) = true.
Proof. vm_compute. reflexivity. Qed.

Lemma basic_keys_septets : forallb (fun p => (0 <=? fst p) && (fst p <? 128)) gsm_basic_decode_map = true.
Proof. vm_compute. reflexivity. Qed.

Lemma escape_not_basic : lookup ESCAPE gsm_basic_decode_map = None.
Proof. vm_compute. reflexivity. Qed.

Lemma replace_codes_septets :
  forallb (fun p => (0 <=? snd p) && (snd p <? 128) && negb (snd p =? ESCAPE)) gsm_replace_encode_map = true
  /\ (0 <=? QUESTION_MARK) && (QUESTION_MARK <? 128) && negb (QUESTION_MARK =? ESCAPE) = true.
Proof. split; vm_compute; reflexivity. Qed.

(* generated tables are the 3GPP tables, whatever the order of the literals *)
Definition pair_mem (p : Z * Z) (l : list (Z * Z)) : bool :=
  existsb (fun q => (fst p =? fst q) && (snd p =? snd q)) l.
Definition same_table (a b : list (Z * Z)) : bool :=
  forallb (fun p => pair_mem p b) a && forallb (fun p => pair_mem p a) b
  && (Z.of_nat (length a) =? Z.of_nat (length b)).

Lemma tables_are_3gpp :
  same_table gsm_basic_decode_map spec_basic = true
  /\ same_table gsm_extended_decode_map spec_extension = true
  /\ ESCAPE = spec_escape.
Proof. repeat split; vm_compute; reflexivity. Qed.

Lemma alphabet_has_137_characters :
  Z.of_nat (length gsm_basic_encode_map + length gsm_extended_encode_map) = 137
  /\ forallb (fun p => negb (existsb (fun q => fst p =? fst q) gsm_extended_encode_map)) gsm_basic_encode_map = true.
Proof. split; vm_compute; reflexivity. Qed.

Lemma basic_enc_sound c code :
  lookup c gsm_basic_encode_map = Some code ->
  code <> ESCAPE /\ lookup code gsm_basic_decode_map = Some c /\ 0 <= code < 128.
Proof.
  intros H. apply lookup_In in H.
  pose proof (forallb_In _ _ _ basic_enc_table_ok H) as Hok. cbn [basic_entry_ok] in Hok.
  apply andb_prop in Hok as [Hok H4]. apply andb_prop in Hok as [Hok H3].
  apply andb_prop in Hok as [H1 H2].
  apply negb_true_iff in H1. apply Z.eqb_neq in H1. apply opt_eqb_eq in H2.
  apply Z.leb_le in H3. apply Z.ltb_lt in H4. auto.
Qed.

Lemma ext_enc_sound c code :
  lookup c gsm_extended_encode_map = Some code ->
  code <> ESCAPE /\ lookup code gsm_extended_decode_map = Some c /\ 0 <= code < 128.
Proof.
  intros H. apply lookup_In in H.
  pose proof (forallb_In _ _ _ ext_enc_table_ok H) as Hok. cbn [ext_entry_ok] in Hok.
  apply andb_prop in Hok as [Hok H4]. apply andb_prop in Hok as [Hok H3].
  apply andb_prop in Hok as [H1 H2].
  apply negb_true_iff in H1. apply Z.eqb_neq in H1. apply opt_eqb_eq in H2.
  apply Z.leb_le in H3. apply Z.ltb_lt in H4. auto.
Qed.

Lemma basic_dec_high b : 128 <= b -> lookup b gsm_basic_decode_map = None.
Proof.
  intros Hb. destruct (lookup b gsm_basic_decode_map) as [v|] eqn:E; [|reflexivity].
  apply lookup_In in E. pose proof (forallb_In _ _ _ basic_keys_septets E) as H. cbn [fst snd] in H.
  apply andb_prop in H as [_ H]. apply Z.ltb_lt in H. lia.
Qed.

(* ---------- the encoder is a per-character homomorphism ---------- *)

(* what one in-alphabet character encodes to *)
Definition enc_char (c : Z) : option (list Z) :=
  match lookup c gsm_basic_encode_map with
  | Some code => Some [code]
  | None => match lookup c gsm_extended_encode_map with
            | Some code => Some [ESCAPE; code]
            | None => None
            end
  end.

Definition sub_char (c : Z) : Z :=
  match lookup c gsm_replace_encode_map with Some r => r | None => QUESTION_MARK end.

(* what any character encodes to in a given error mode; None = the whole call fails *)
Definition enc_char_mode (m : errmode) (c : Z) : option (list Z) :=
  match enc_char c with
  | Some l => Some l
  | None => match m with Strict => None | Replace => Some [sub_char c] | Ignore => Some [] end
  end.

Fixpoint concat_opt (l : list (option (list Z))) : option (list Z) :=
  match l with
  | [] => Some []
  | None :: _ => None
  | Some x :: r => option_map (app x) (concat_opt r)
  end.

Lemma to_gsm_codes_homomorphism m s :
  to_gsm_codes m s = concat_opt (map (enc_char_mode m) s).
Proof.
  induction s as [|c s IH]; [reflexivity|].
  cbn [to_gsm_codes map concat_opt]. unfold enc_char_mode, enc_char.
  destruct (lookup c gsm_basic_encode_map) as [code|].
  - rewrite IH. destruct (concat_opt _); reflexivity.
  - destruct (lookup c gsm_extended_encode_map) as [code|].
    + rewrite IH. destruct (concat_opt _); reflexivity.
    + destruct m; cbn [concat_opt]; rewrite ?IH; try reflexivity;
        destruct (concat_opt _); reflexivity.
Qed.

Lemma in_alphabet_enc_char c : in_alphabet c = true <-> exists l, enc_char c = Some l.
Proof.
  unfold in_alphabet, enc_char.
  destruct (lookup c gsm_basic_encode_map); [split; eauto|].
  destruct (lookup c gsm_extended_encode_map); split; eauto; intros H; try discriminate.
  destruct H as [l H]; discriminate.
Qed.

Lemma not_in_alphabet_enc_char c : in_alphabet c = false <-> enc_char c = None.
Proof.
  unfold in_alphabet, enc_char.
  destruct (lookup c gsm_basic_encode_map); [split; discriminate|].
  destruct (lookup c gsm_extended_encode_map); split; try discriminate; reflexivity.
Qed.

Lemma concat_opt_app a b :
  concat_opt (a ++ b) =
  match concat_opt a, concat_opt b with Some x, Some y => Some (x ++ y) | _, _ => None end.
Proof.
  induction a as [|[x|] a IH]; cbn [concat_opt app].
  - destruct (concat_opt b); reflexivity.
  - rewrite IH. destruct (concat_opt a), (concat_opt b); cbn; rewrite ?app_assoc; reflexivity.
  - reflexivity.
Qed.

(* encoding distributes over concatenation in every mode: neighbours never influence each other *)
Lemma to_gsm_codes_app m a b :
  to_gsm_codes m (a ++ b) =
  match to_gsm_codes m a, to_gsm_codes m b with Some x, Some y => Some (x ++ y) | _, _ => None end.
Proof. rewrite !to_gsm_codes_homomorphism, map_app. apply concat_opt_app. Qed.

Lemma to_gsm_codes_single_outside m c :
  in_alphabet c = false ->
  to_gsm_codes m [c] = match m with Strict => None | Replace => Some [sub_char c] | Ignore => Some [] end.
Proof.
  intros H. apply not_in_alphabet_enc_char in H.
  rewrite to_gsm_codes_homomorphism. cbn. unfold enc_char_mode. rewrite H. destruct m; reflexivity.
Qed.

Lemma strict_fails_iff s :
  to_gsm_codes Strict s = None <-> exists c, In c s /\ in_alphabet c = false.
Proof.
  rewrite to_gsm_codes_homomorphism.
  induction s as [|c s IH]; cbn [map concat_opt].
  - split; [discriminate|intros [c [[] _]]].
  - unfold enc_char_mode at 1. destruct (enc_char c) as [l|] eqn:E.
    + destruct (concat_opt (map (enc_char_mode Strict) s)) eqn:E2; cbn.
      * split; [discriminate|]. intros [c' [[->|Hin] Hout]].
        -- apply not_in_alphabet_enc_char in Hout. congruence.
        -- assert (Some l0 = None :> option (list Z)) by (apply IH; eauto). discriminate.
      * split; [|reflexivity]. intros _. destruct IH as [IH _].
        destruct (IH eq_refl) as [c' [Hin Hout]]. exists c'; split; [right|]; auto.
    + split; [|reflexivity]. intros _. exists c. split; [left; reflexivity|].
      apply not_in_alphabet_enc_char; auto.
Qed.

Lemma is_gsm_text_iff s : is_gsm_text s = true <-> Forall (fun c => in_alphabet c = true) s.
Proof. unfold is_gsm_text. rewrite forallb_forall, Forall_forall. reflexivity. Qed.

Lemma strict_succeeds_iff s :
  (exists codes, to_gsm_codes Strict s = Some codes) <-> is_gsm_text s = true.
Proof.
  split.
  - intros [codes H]. apply is_gsm_text_iff, Forall_forall. intros c Hin.
    destruct (in_alphabet c) eqn:E; [reflexivity|].
    assert (to_gsm_codes Strict s = None) by (apply strict_fails_iff; eauto). congruence.
  - intros H. destruct (to_gsm_codes Strict s) eqn:E; [eauto|].
    apply strict_fails_iff in E as [c [Hin Hout]].
    apply is_gsm_text_iff in H. rewrite Forall_forall in H. rewrite (H c Hin) in Hout. discriminate.
Qed.

(* ignore mode = strict encoding of the in-alphabet characters only *)
Lemma ignore_always_succeeds s : exists codes, to_gsm_codes Ignore s = Some codes.
Proof.
  induction s as [|c s [codes IH]]; cbn [to_gsm_codes]; [eauto|].
  destruct (lookup c gsm_basic_encode_map); [rewrite IH; cbn; eauto|].
  destruct (lookup c gsm_extended_encode_map); rewrite IH; cbn; eauto.
Qed.

Lemma ignore_eq_filter s : to_gsm_codes Ignore s = to_gsm_codes Strict (filter in_alphabet s).
Proof.
  induction s as [|c s IH]; [reflexivity|].
  cbn [to_gsm_codes filter]. unfold in_alphabet.
  destruct (lookup c gsm_basic_encode_map) as [code|] eqn:E1.
  - cbn [to_gsm_codes]. rewrite E1, IH. reflexivity.
  - destruct (lookup c gsm_extended_encode_map) as [code|] eqn:E2.
    + cbn [to_gsm_codes]. rewrite E1, E2, IH. reflexivity.
    + exact IH.
Qed.

Lemma ignore_is_filter s :
  to_gsm_codes Ignore s = to_gsm_codes Strict (filter in_alphabet s)
  /\ exists codes, to_gsm_codes Ignore s = Some codes.
Proof. split; [apply ignore_eq_filter|apply ignore_always_succeeds]. Qed.

(* replace mode: every character yields its own septets; an outside character exactly one *)
Lemma replace_always_succeeds s : exists codes, to_gsm_codes Replace s = Some codes.
Proof.
  rewrite to_gsm_codes_homomorphism.
  induction s as [|c s [codes IH]]; cbn [map concat_opt]; [eauto|].
  unfold enc_char_mode at 1. destruct (enc_char c); rewrite IH; cbn; eauto.
Qed.

Lemma replace_local a c b ea eb :
  in_alphabet c = false ->
  to_gsm_codes Replace a = Some ea -> to_gsm_codes Replace b = Some eb ->
  to_gsm_codes Replace (a ++ [c] ++ b) = Some (ea ++ [sub_char c] ++ eb).
Proof.
  intros Hc Ha Hb. rewrite !to_gsm_codes_app, Ha, Hb.
  rewrite (to_gsm_codes_single_outside Replace c Hc). reflexivity.
Qed.

Lemma ignore_local a c b ea eb :
  in_alphabet c = false ->
  to_gsm_codes Ignore a = Some ea -> to_gsm_codes Ignore b = Some eb ->
  to_gsm_codes Ignore (a ++ [c] ++ b) = Some (ea ++ eb).
Proof.
  intros Hc Ha Hb. rewrite !to_gsm_codes_app, Ha, Hb.
  rewrite (to_gsm_codes_single_outside Ignore c Hc). reflexivity.
Qed.

(* cost: one septet per basic character, two (escape first) per extension character *)
Definition char_cost (c : Z) : Z :=
  match lookup c gsm_basic_encode_map with
  | Some _ => 1
  | None => match lookup c gsm_extended_encode_map with Some _ => 2 | None => 0 end
  end.

Fixpoint text_cost (s : list Z) : Z :=
  match s with [] => 0 | c :: t => char_cost c + text_cost t end.

Lemma strict_length s codes :
  to_gsm_codes Strict s = Some codes -> Z.of_nat (length codes) = text_cost s.
Proof.
  revert codes. induction s as [|c s IH]; cbn [to_gsm_codes text_cost]; intros codes H.
  - injection H as <-. reflexivity.
  - unfold char_cost. destruct (lookup c gsm_basic_encode_map) as [code|].
    + destruct (to_gsm_codes Strict s) as [r|]; [|discriminate]. injection H as <-.
      cbn [length]. rewrite Nat2Z.inj_succ, (IH r eq_refl). lia.
    + destruct (lookup c gsm_extended_encode_map) as [code|]; [|discriminate].
      destruct (to_gsm_codes Strict s) as [r|]; [|discriminate]. injection H as <-.
      cbn [length]. rewrite !Nat2Z.inj_succ, (IH r eq_refl). lia.
Qed.

Lemma ext_char_shape c code :
  lookup c gsm_basic_encode_map = None -> lookup c gsm_extended_encode_map = Some code ->
  forall m, to_gsm_codes m [c] = Some [ESCAPE; code].
Proof. intros H1 H2 m. cbn [to_gsm_codes]. rewrite H1, H2. reflexivity. Qed.

(* ---------- codes are septets, so packing with 'B' never fails ---------- *)

Lemma codes_are_septets m s codes :
  to_gsm_codes m s = Some codes -> Forall (fun x => 0 <= x < 128) codes.
Proof.
  revert codes. induction s as [|c s IH]; cbn [to_gsm_codes]; intros codes H.
  - injection H as <-. constructor.
  - destruct (lookup c gsm_basic_encode_map) as [code|] eqn:E1.
    + destruct (to_gsm_codes m s) as [r|]; [|discriminate]. injection H as <-.
      constructor; [apply (basic_enc_sound _ _ E1)|auto].
    + destruct (lookup c gsm_extended_encode_map) as [code|] eqn:E2.
      * destruct (to_gsm_codes m s) as [r|]; [|discriminate]. injection H as <-.
        pose proof escape_is_septet as He. apply andb_prop in He as [He1 He2].
        apply Z.leb_le in He1. apply Z.ltb_lt in He2.
        constructor; [lia|]. constructor; [apply (ext_enc_sound _ _ E2)|auto].
      * destruct m; [discriminate| |auto].
        destruct (to_gsm_codes Replace s) as [r|]; [|discriminate]. injection H as <-.
        constructor; [|auto].
        destruct replace_codes_septets as [Ht Hq].
        destruct (lookup c gsm_replace_encode_map) as [rc|] eqn:E3.
        -- apply lookup_In in E3. pose proof (forallb_In _ _ _ Ht E3) as Hr. cbn [fst snd] in Hr.
           apply andb_prop in Hr as [Hr _]. apply andb_prop in Hr as [Hr1 Hr2].
           apply Z.leb_le in Hr1. apply Z.ltb_lt in Hr2. lia.
        -- apply andb_prop in Hq as [Hq _]. apply andb_prop in Hq as [Hq1 Hq2].
           apply Z.leb_le in Hq1. apply Z.ltb_lt in Hq2. lia.
Qed.

Lemma pack_B_septets codes : Forall (fun x => 0 <= x < 128) codes -> pack_B codes = Ok codes.
Proof.
  intros H. unfold pack_B.
  assert (forallb is_octet codes = true) as ->; [|reflexivity].
  apply forallb_forall. intros x Hx. rewrite Forall_forall in H. specialize (H x Hx).
  unfold is_octet. apply andb_true_intro; split; [apply Z.leb_le|apply Z.leb_le]; lia.
Qed.

Lemma gsm_encode_never_struct_error m s : gsm_encode m s <> Err EXN_StructError.
Proof.
  unfold gsm_encode. destruct (to_gsm_codes m s) as [codes|] eqn:E.
  - rewrite (pack_B_septets _ (codes_are_septets _ _ _ E)). discriminate.
  - vm_compute. discriminate.
Qed.

(* ---------- decoder: one-step equations for every octet value and both states ---------- *)

Lemma decode_step_escape m rest :
  gsm_decode_loop m (ESCAPE :: rest) false = gsm_decode_loop m rest true.
Proof. cbn [gsm_decode_loop]. unfold decode_char. rewrite Z.eqb_refl. reflexivity. Qed.

Lemma decode_step_basic m b c rest :
  b <> ESCAPE -> lookup b gsm_basic_decode_map = Some c ->
  gsm_decode_loop m (b :: rest) false = rmap (cons c) (gsm_decode_loop m rest false).
Proof.
  intros Hb Hl. cbn [gsm_decode_loop]. unfold decode_char.
  apply Z.eqb_neq in Hb. rewrite Hb, Hl. reflexivity.
Qed.

Lemma decode_step_unmapped m b rest :
  b <> ESCAPE -> lookup b gsm_basic_decode_map = None ->
  gsm_decode_loop m (b :: rest) false =
  match m with
  | Strict => Err EXN_UnicodeDecodeError
  | Replace => rmap (cons QUESTION_MARK) (gsm_decode_loop m rest false)
  | Ignore => gsm_decode_loop m rest false
  end.
Proof.
  intros Hb Hl. cbn [gsm_decode_loop]. unfold decode_char.
  apply Z.eqb_neq in Hb. rewrite Hb, Hl. destruct m; reflexivity.
Qed.

(* octets above 0x7F are unmapped *)
Lemma decode_step_high m b rest :
  128 <= b ->
  gsm_decode_loop m (b :: rest) false =
  match m with
  | Strict => Err EXN_UnicodeDecodeError
  | Replace => rmap (cons QUESTION_MARK) (gsm_decode_loop m rest false)
  | Ignore => gsm_decode_loop m rest false
  end.
Proof.
  intros Hb. apply decode_step_unmapped; [|apply basic_dec_high; auto].
  pose proof escape_is_septet as He. apply andb_prop in He as [_ He]. apply Z.ltb_lt in He. lia.
Qed.

Lemma decode_step_ext m x c rest :
  lookup x gsm_extended_decode_map = Some c ->
  gsm_decode_loop m (x :: rest) true = rmap (cons c) (gsm_decode_loop m rest false).
Proof. intros Hl. cbn [gsm_decode_loop]. unfold decode_char. rewrite Hl. reflexivity. Qed.

(* escape followed by ANY code without extension entry - the escape code itself included: exactly one placeholder, in every mode *)
Lemma decode_step_ext_unmapped m x rest :
  lookup x gsm_extended_decode_map = None ->
  gsm_decode_loop m (x :: rest) true = rmap (cons NO_BREAK_SPACE) (gsm_decode_loop m rest false).
Proof. intros Hl. cbn [gsm_decode_loop]. unfold decode_char. rewrite Hl. reflexivity. Qed.

Lemma escape_has_no_extension_entry : lookup ESCAPE gsm_extended_decode_map = None.
Proof. vm_compute. reflexivity. Qed.

Lemma decode_trailing_escape m :
  gsm_decode_loop m [] true =
  match m with Strict => Err EXN_UnicodeDecodeError | Replace => Ok [NO_BREAK_SPACE] | Ignore => Ok [] end.
Proof. destruct m; reflexivity. Qed.

(* ---------- round trip ---------- *)

Lemma roundtrip_codes m s codes :
  is_gsm_text s = true -> to_gsm_codes m s = Some codes ->
  forall m', gsm_decode_loop m' codes false = Ok s.
Proof.
  revert codes. induction s as [|c s IH]; cbn [to_gsm_codes is_gsm_text forallb]; intros codes Hs H m'.
  - injection H as <-. reflexivity.
  - apply andb_prop in Hs as [Hc Hs].
    destruct (lookup c gsm_basic_encode_map) as [code|] eqn:E1.
    + destruct (to_gsm_codes m s) as [r|] eqn:Er; [|discriminate]. injection H as <-.
      destruct (basic_enc_sound _ _ E1) as [Hne [Hd _]].
      rewrite (decode_step_basic m' code c r Hne Hd), (IH r Hs eq_refl m'). reflexivity.
    + destruct (lookup c gsm_extended_encode_map) as [code|] eqn:E2.
      * destruct (to_gsm_codes m s) as [r|] eqn:Er; [|discriminate]. injection H as <-.
        destruct (ext_enc_sound _ _ E2) as [Hne [Hd _]].
        rewrite decode_step_escape, (decode_step_ext m' code c r Hd), (IH r Hs eq_refl m').
        reflexivity.
      * unfold in_alphabet in Hc. rewrite E1, E2 in Hc. discriminate.
Qed.

Theorem gsm_roundtrip s :
  is_gsm_text s = true ->
  forall m, exists b, gsm_encode m s = Ok b /\ forall m', gsm_decode m' b = Ok s.
Proof.
  intros Hs m.
  assert (exists codes, to_gsm_codes m s = Some codes) as [codes Hc].
  { destruct m.
    - apply strict_succeeds_iff; auto.
    - apply replace_always_succeeds.
    - apply ignore_is_filter. }
  exists codes. unfold gsm_encode, gsm_decode. rewrite Hc.
  rewrite (pack_B_septets _ (codes_are_septets _ _ _ Hc)). split; [reflexivity|].
  intros m'. eapply roundtrip_codes; eauto.
Qed.

(* strict mode rejects exactly the strings with an outside character *)
Lemma gsm_encode_strict_rejects s :
  gsm_encode Strict s = Err EXN_UnicodeEncodeError <-> exists c, In c s /\ in_alphabet c = false.
Proof.
  unfold gsm_encode. rewrite <- strict_fails_iff.
  destruct (to_gsm_codes Strict s) as [codes|] eqn:E.
  - rewrite (pack_B_septets _ (codes_are_septets _ _ _ E)). split; discriminate.
  - split; reflexivity.
Qed.
