(* Lemmas for C15. *)
From Coq Require Import ZArith List Bool Lia Permutation.
Import ListNotations.
Require Import AV.Generated.SmppConsts AV.Model.Base AV.Model.Wire.
Open Scope Z_scope.

(* ---------- framing ---------- *)
Lemma be32_app p rest : (4 <= length p)%nat -> be32 (p ++ rest) = be32 p.
Proof. destruct p as [|a [|b [|c [|d t]]]]; cbn [length]; intros H; try lia. reflexivity. Qed.

Theorem frames_concat pdus : Forall whole pdus -> forall fuel, (length pdus < fuel)%nat -> frames fuel (concat pdus) = (pdus, []).
Proof.
  induction 1 as [|p t [Hb Hl] _ IH]; intros fuel Hf.
  - destruct fuel; [lia|]. reflexivity.
  - destruct fuel as [|f]; [cbn [length] in Hf; lia|]. cbn [concat frames].
    destruct (p ++ concat t) as [|x s] eqn:E; [destruct p; [cbn [length] in Hl; lia|discriminate]|]. rewrite <- E.
    rewrite (be32_app p (concat t) ltac:(lia)), Hb.
    replace ((16 <=? Z.of_nat (length p)) && (Z.of_nat (length p) <=? Z.of_nat (length (p ++ concat t)))) with true
      by (symmetry; apply andb_true_intro; split; [apply Z.leb_le; lia|apply Z.leb_le; rewrite app_length; lia]).
    rewrite Nat2Z.id. rewrite firstn_app, firstn_all, Nat.sub_diag. cbn [firstn]. rewrite app_nil_r.
    rewrite skipn_app, skipn_all, Nat.sub_diag. cbn [skipn app].
    rewrite (IH f ltac:(cbn [length] in Hf; lia)). reflexivity.
Qed.

Lemma wire_bytes_writes tr : wire_bytes tr = concat (writes tr).
Proof. induction tr as [|[p|p| |] t IH]; cbn [wire_bytes writes concat]; rewrite ?IH; reflexivity. Qed.

(* whatever the tasks and their interleaving: an independent framer cuts the byte stream back into exactly the PDUs written *)
Theorem stream_is_whole_pdus tr :
  Forall whole (writes tr) -> frames (S (length (writes tr))) (wire_bytes tr) = (writes tr, []).
Proof. intros H. rewrite wire_bytes_writes. apply frames_concat; [exact H|lia]. Qed.

(* ---------- announce before write, with the same bytes ---------- *)
Fixpoint ann_check (pend : list (list Z)) (tr : list wevent) : bool :=
  match tr with
  | [] => true
  | EAnnounce p :: t => ann_check (p :: pend) t
  | EWrite p :: t => match remove_one p pend with None => false | Some pend' => ann_check pend' t end
  | _ :: t => ann_check pend t
  end.

Lemma list_eqb_refl l : list_eqb l l = true.
Proof. induction l as [|x t IH]; cbn [list_eqb]; [reflexivity|]. rewrite Z.eqb_refl, IH. reflexivity. Qed.
Lemma list_eqb_true a : forall b, list_eqb a b = true -> a = b.
Proof.
  induction a as [|x t IH]; intros [|y u]; cbn [list_eqb]; intros H; try discriminate; [reflexivity|].
  apply andb_prop in H as [H1 H2]. apply Z.eqb_eq in H1. subst y. f_equal. apply IH. exact H2.
Qed.

Lemma remove_one_perm p : forall l, In p l -> exists l', remove_one p l = Some l' /\ Permutation l (p :: l').
Proof.
  induction l as [|q t IH]; intros Hin; [contradiction|]. cbn [remove_one].
  destruct (list_eqb p q) eqn:E.
  - apply list_eqb_true in E. subst q. exists t. split; [reflexivity|apply Permutation_refl].
  - destruct Hin as [->|Hin]; [rewrite list_eqb_refl in E; discriminate|].
    destruct (IH Hin) as (l' & -> & Hp). exists (q :: l'). split; [reflexivity|].
    rewrite Hp. apply perm_swap.
Qed.

Lemma ann_check_perm tr : forall a b, Permutation a b -> ann_check a tr = ann_check b tr.
Proof.
  induction tr as [|[p|p| |] t IH]; intros a b Hab; cbn [ann_check]; try reflexivity; try (apply IH; assumption).
  - apply IH. constructor. exact Hab.
  - destruct (in_dec (list_eq_dec Z.eq_dec) p a) as [Hin|Hout].
    + destruct (remove_one_perm p a Hin) as (a' & -> & Pa).
      assert (In p b) as Hinb by (eapply Permutation_in; eauto).
      destruct (remove_one_perm p b Hinb) as (b' & -> & Pb). apply IH.
      apply Permutation_cons_inv with (a := p). rewrite <- Pa, <- Pb. exact Hab.
    + assert (forall l, ~ In p l -> remove_one p l = None) as Hnone.
      { induction l as [|q u IHl]; intros Hn; [reflexivity|]. cbn [remove_one]. destruct (list_eqb p q) eqn:E.
        - apply list_eqb_true in E. subst q. exfalso. apply Hn. left. reflexivity.
        - rewrite IHl; [reflexivity|]. intros Hq. apply Hn. right. exact Hq. }
      rewrite (Hnone a Hout). rewrite (Hnone b); [reflexivity|]. intros Hb. apply Hout. eapply Permutation_in; [apply Permutation_sym; exact Hab|exact Hb].
Qed.

(* a task is between two PDUs, or between the announcement and the write of one *)
Definition task_shape (t : list wevent) : Prop :=
  (exists ps, t = task_events ps) \/ (exists p ps, t = EWrite p :: task_events ps).
Definition mid (t : list wevent) : list (list Z) := match t with EWrite p :: _ => [p] | _ => [] end.
Definition pending_of (ts : list (list wevent)) : list (list Z) := flat_map mid ts.

Lemma pending_of_app a b : pending_of (a ++ b) = pending_of a ++ pending_of b.
Proof. unfold pending_of. apply flat_map_app. Qed.

Lemma merge_announced ts l : merge ts l -> Forall task_shape ts -> forall pend, Permutation pend (pending_of ts) -> ann_check pend l = true.
Proof.
  induction 1 as [ts Hnil|pre e t post l Hm IH]; intros Hshape pend Hp; [reflexivity|].
  apply Forall_app in Hshape as [Hpre Hrest]. inversion_clear Hrest as [|? ? Het Hpost].
  rewrite pending_of_app in Hp. cbn [pending_of flat_map] in Hp. fold (pending_of post) in Hp.
  destruct Het as [(ps & Eps)|(p & ps & Eps)].
  - (* the task announces its next PDU *)
    destruct ps as [|p ps]; [discriminate|]. cbn [task_events flat_map app] in Eps. injection Eps as -> ->.
    cbn [ann_check]. apply IH.
    + apply Forall_app. split; [exact Hpre|]. constructor; [right; exists p, ps; reflexivity|exact Hpost].
    + rewrite pending_of_app. cbn [pending_of flat_map mid app]. fold (pending_of post).
      cbn [mid app] in Hp. rewrite Hp. apply Permutation_cons_app. apply Permutation_refl.
  - (* the task writes the PDU it announced *)
    injection Eps as -> ->. cbn [ann_check]. cbn [mid app] in Hp.
    assert (In p pend) as Hin by (eapply Permutation_in; [apply Permutation_sym; exact Hp|apply in_or_app; right; left; reflexivity]).
    destruct (remove_one_perm p pend Hin) as (pend' & -> & Pp). apply IH.
    + apply Forall_app. split; [exact Hpre|]. constructor; [left; exists ps; reflexivity|exact Hpost].
    + rewrite pending_of_app. cbn [pending_of flat_map]. fold (pending_of post).
      assert (mid (task_events ps) = []) as -> by (destruct ps; reflexivity). cbn [app].
      apply Permutation_cons_inv with (a := p). rewrite <- Pp, Hp. apply Permutation_sym, Permutation_middle.
Qed.

(* any number of tasks sending any PDUs, interleaved in any way: every write was announced before, with exactly those bytes *)
Theorem every_write_announced tasks l : merge (map task_events tasks) l -> ann_check [] l = true.
Proof.
  intros Hm. apply (merge_announced _ _ Hm).
  - apply Forall_forall. intros t Ht. apply in_map_iff in Ht as (ps & <- & _). left. exists ps. reflexivity.
  - assert (pending_of (map task_events tasks) = []) as ->; [|apply Permutation_refl].
    clear Hm. induction tasks as [|ps t IH]; [reflexivity|]. cbn [map pending_of flat_map]. fold (pending_of (map task_events t)). rewrite IH.
    destruct ps; reflexivity.
Qed.

(* ---------- the bound gate ---------- *)
Definition g_inv (st : gstate) : Prop := g_flag st = true -> g_conn_bound st = true /\ g_first st = false.
Definition write_ok (w : bool * bool * bool) : Prop :=
  let '(is_bind, first, conn_bound) := w in if is_bind then first = true else first = false /\ conn_bound = true.

Theorem gate_discipline ss : forall st, g_inv st -> g_run st ss = true -> Forall write_ok (g_writes st ss).
Proof.
  induction ss as [|s t IH]; intros st Hinv Hrun; [constructor|]. cbn [g_run] in Hrun. apply andb_prop in Hrun as [Hen Hrun].
  assert (g_inv (g_next st s)) as Hinv'.
  { unfold g_inv in *. destruct s; cbn [g_next g_flag g_conn_bound g_first g_enabled] in *; intros Hf; try discriminate.
    - destruct (g_flag st) eqn:Ef; [destruct (Hinv eq_refl) as [_ F]; rewrite F in Hen; discriminate|discriminate].
    - split; [reflexivity|]. apply negb_true_iff in Hen. exact Hen.
    - destruct (Hinv Hf) as [A _]. split; [exact A|reflexivity]. }
  destruct s; cbn [g_writes]; try (apply IH; assumption).
  - constructor; [|apply IH; assumption]. cbn [write_ok g_enabled] in *. exact Hen.
  - constructor; [|apply IH; assumption]. cbn [write_ok g_enabled] in *. destruct (Hinv Hen) as [A B]. split; assumption.
Qed.

Definition g_init : gstate := {| g_flag := false; g_conn_bound := false; g_first := false |}.
Lemma g_init_inv : g_inv g_init. Proof. unfold g_inv, g_init. cbn. discriminate. Qed.

(* ---------- modes ---------- *)
Definition mode_command (mode : Z) : Z := match lookup mode bindmode_command_rows with Some c => c | None => bindmode_command_default end.
Definition mode_state (mode : Z) : Z := match lookup mode bindmode_state_rows with Some c => c | None => bindmode_state_default end.

Lemma modes_table :
  mode_command BindMode_TRANSMITTER = SmppCommand_BIND_TRANSMITTER /\ mode_state BindMode_TRANSMITTER = SmppSessionState_BOUND_TX
  /\ mode_command BindMode_RECEIVER = SmppCommand_BIND_RECEIVER /\ mode_state BindMode_RECEIVER = SmppSessionState_BOUND_RX
  /\ mode_command BindMode_TRANSCEIVER = SmppCommand_BIND_TRANSCEIVER /\ mode_state BindMode_TRANSCEIVER = SmppSessionState_BOUND_TRX.
Proof. vm_compute. repeat split; reflexivity. Qed.

(* ---------- every PDU the library builds is whole (C03_command_length) ---------- *)
Require Import AV.Generated.ExnOrder AV.Model.Codec AV.Model.Split AV.Model.TimeFmt AV.Model.Pdu AV.Proofs.PduProofs.

Lemma unpackI_be32 b n : unpackI b 0 = Ok n -> be32 b = Some n.
Proof. unfold unpackI, be32. cbn [skipn]. destruct b as [|x [|y [|z [|w t]]]]; try discriminate. intros H. injection H as <-. reflexivity. Qed.

Theorem encoded_pdus_are_whole default msg b : encode default msg = Ok b -> whole b.
Proof.
  intros He. split; [apply unpackI_be32, (encode_length default msg b He)|].
  assert (forall body cmd st seq hd r, pack_header (16 + Z.of_nat (length body)) cmd st seq = Ok hd -> r = hd ++ body -> (16 <= length r)%nat) as Hgen.
  { intros body cmd st seq hd r H ->. apply pack_header_inv in H as (_ & _ & _ & _ & Hl & _). rewrite app_length. lia. }
  destruct msg as [cmd m|cmd seq st mid|cmd bd|cmd seq st sid ver|cmd seq st]; cbn [encode] in He.
  - unfold encode_sm in He.
    destruct (match s_pre m with [] => _ | _ => _ end) as [[[sm ptlv] e']|]; cbn [rbind] in He; [|discriminate].
    destruct (match e' with Some e => enc_data_coding e | None => Ok 0 end) as [dc|]; cbn [rbind] in He; [|discriminate].
    destruct (rconcat _) as [opts|]; cbn [rbind] in He; [|discriminate].
    destruct (cstr (s_service m) +++ _) as [body|] eqn:Eb; cbn [rbind] in He; [|discriminate].
    destruct (pack_header _ _ _ _) as [hd|] eqn:Eh; cbn [rbind fst] in He; [|discriminate].
    injection He as <-. eapply Hgen; eauto.
  - destruct (cstr mid) as [body|]; cbn [rbind] in He; [|discriminate].
    destruct (pack_header _ _ _ _) as [hd|] eqn:Eh; cbn [rbind] in He; [|discriminate]. injection He as <-. eapply Hgen; eauto.
  - destruct (cstr (b_system_id bd) +++ _) as [body|] eqn:Eb; cbn [rbind] in He; [|discriminate].
    destruct (pack_header _ _ _ _) as [hd|] eqn:Eh; cbn [rbind] in He; [|discriminate]. injection He as <-. eapply Hgen; eauto.
  - destruct (cstr sid +++ _) as [body|] eqn:Eb; cbn [rbind] in He; [|discriminate].
    destruct (pack_header _ _ _ _) as [hd|] eqn:Eh; cbn [rbind] in He; [|discriminate]. injection He as <-. eapply Hgen; eauto.
  - apply pack_header_inv in He as (_ & _ & _ & _ & Hl & _). lia.
Qed.
