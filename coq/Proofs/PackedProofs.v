(* Lemmas about the packed GSM codec model (C11). Arithmetic on septets is discharged by
   exhaustive sweeps over 0..127 (vm_compute) lifted with forallb_forall: complete proofs,
   the domain being finite. *)
From Coq Require Import ZArith List Bool Lia.
Import ListNotations.
Require Import AV.Generated.GsmTables AV.Generated.ExnOrder AV.Model.Base AV.Model.Codec
               AV.Spec.Septets AV.Proofs.CodecProofs.
Open Scope Z_scope.
Ltac Zify.zify_post_hook ::= Z.to_euclidean_division_equations.

Definition septets : list Z := map Z.of_nat (seq 0 128).
Definition shifts : list Z := [0; 1; 2; 3; 4; 5; 6].

Lemma In_septets a : 0 <= a < 128 -> In a septets.
Proof.
  intros H. unfold septets. apply in_map_iff. exists (Z.to_nat a). split; [lia|].
  apply in_seq. lia.
Qed.

Lemma In_shifts s : 0 <= s < 7 -> In s shifts.
Proof. intros H. unfold shifts. cbn [In]. lia. Qed.

Definition sweep2 (f : Z -> Z -> bool) : bool := forallb (fun a => forallb (f a) septets) septets.
Definition sweep3 (f : Z -> Z -> Z -> bool) : bool := forallb (fun s => sweep2 (f s)) shifts.

Lemma sweep2_sound f : sweep2 f = true -> forall a b, 0 <= a < 128 -> 0 <= b < 128 -> f a b = true.
Proof.
  unfold sweep2. intros H a b Ha Hb. rewrite forallb_forall in H.
  specialize (H a (In_septets a Ha)). rewrite forallb_forall in H. apply H, In_septets, Hb.
Qed.

Lemma sweep3_sound f : sweep3 f = true ->
  forall s a b, 0 <= s < 7 -> 0 <= a < 128 -> 0 <= b < 128 -> f s a b = true.
Proof.
  unfold sweep3. intros H s a b Hs Ha Hb. rewrite forallb_forall in H.
  apply sweep2_sound; auto. apply H, In_shifts, Hs.
Qed.

Definition septet (x : Z) : Prop := 0 <= x < 128.

(* the octet the Python loop emits at bit alignment s from two neighbouring septets *)
Definition oct (s a b : Z) : Z := a / 2 ^ s + (b * 2 ^ (7 - s)) mod 256.

(* ---------- the pack loop only looks at index mod 7 and at two list positions ---------- *)

Lemma pack_loop_period codes n index count :
  pack_loop codes n (index + 7) count = pack_loop codes n index count.
Proof.
  revert index count. induction n as [|n IH]; intros index count; [reflexivity|].
  cbn [pack_loop].
  replace ((index + 7) mod 7) with (index mod 7) by lia.
  replace (index + 7 + 1) with (index + 1 + 7) by lia. rewrite IH. reflexivity.
Qed.

Lemma nthZ_app_skip pre l i : nthZ (pre ++ l) (length pre + i) = nthZ l i.
Proof. unfold nthZ. rewrite app_nth2 by lia. f_equal. lia. Qed.

Lemma pack_loop_skip pre l n index count :
  pack_loop (pre ++ l) n index (length pre + count) = pack_loop l n index count.
Proof.
  revert index count. induction n as [|n IH]; intros index count; [reflexivity|].
  cbn [pack_loop]. rewrite nthZ_app_skip.
  replace (S (length pre + count)) with (length pre + S count)%nat by lia.
  rewrite nthZ_app_skip. f_equal.
  destruct (index mod 7 =? 6).
  - replace (S (length pre + S count)) with (length pre + S (S count))%nat by lia. apply IH.
  - apply IH.
Qed.

(* one full period of the loop: 8 septets in, 7 octets out *)
Lemma pack_loop_chunk c0 c1 c2 c3 c4 c5 c6 c7 rest n :
  pack_loop (c0 :: c1 :: c2 :: c3 :: c4 :: c5 :: c6 :: c7 :: rest) (7 + n) 0 0 =
  [oct 0 c0 c1; oct 1 c1 c2; oct 2 c2 c3; oct 3 c3 c4; oct 4 c4 c5; oct 5 c5 c6; oct 6 c6 c7]
  ++ pack_loop rest n 0 0.
Proof.
  change (7 + n)%nat with (S (S (S (S (S (S (S n))))))).
  transitivity ([oct 0 c0 c1; oct 1 c1 c2; oct 2 c2 c3; oct 3 c3 c4; oct 4 c4 c5; oct 5 c5 c6; oct 6 c6 c7]
                ++ pack_loop (c0 :: c1 :: c2 :: c3 :: c4 :: c5 :: c6 :: c7 :: rest) n (0 + 7) 8%nat);
    [reflexivity|].
  f_equal. rewrite pack_loop_period.
  apply (pack_loop_skip [c0; c1; c2; c3; c4; c5; c6; c7] rest n 0 0%nat).
Qed.

Lemma packed_len_8 m : 0 <= m -> packed_len (8 + m) = 7 + packed_len m.
Proof.
  intros Hm. unfold packed_len.
  replace ((8 + m) * 7 / 8) with (m * 7 / 8 + 7) by lia.
  replace (((8 + m) * 7) mod 8) with ((m * 7) mod 8) by lia. lia.
Qed.

Lemma packed_len_nonneg m : 0 <= m -> 0 <= packed_len m.
Proof.
  intros Hm. unfold packed_len.
  assert (0 <= m * 7 / 8) by lia.
  destruct (0 <? (m * 7) mod 8); lia.
Qed.

Lemma pack7_chunk c0 c1 c2 c3 c4 c5 c6 c7 rest :
  pack7 (c0 :: c1 :: c2 :: c3 :: c4 :: c5 :: c6 :: c7 :: rest) =
  [oct 0 c0 c1; oct 1 c1 c2; oct 2 c2 c3; oct 3 c3 c4; oct 4 c4 c5; oct 5 c5 c6; oct 6 c6 c7]
  ++ pack7 rest.
Proof.
  unfold pack7. cbn [length].
  replace (Z.of_nat (S (S (S (S (S (S (S (S (length rest)))))))))) with (8 + Z.of_nat (length rest)) by lia.
  rewrite packed_len_8 by lia.
  rewrite Z2Nat.inj_add by (try apply packed_len_nonneg; lia).
  change (Z.to_nat 7) with 7%nat.
  cbn [app]. apply pack_loop_chunk.
Qed.

(* ---------- the specification has the same period ---------- *)

Definition oct_matches_bits (s a b : Z) : bool :=
  list_eqb [oct s a b] (octets_of_bits (skipn (Z.to_nat s) (bits7 a) ++ firstn (Z.to_nat s + 1) (bits7 b))).

Lemma oct_matches_bits_all : sweep3 oct_matches_bits = true.
Proof. vm_compute. reflexivity. Qed.

Lemma list_eqb_eq a b : list_eqb a b = true -> a = b.
Proof.
  revert b. induction a as [|x a IH]; intros [|y b] H; cbn in H; try discriminate; [reflexivity|].
  apply andb_prop in H as [H1 H2]. apply Z.eqb_eq in H1. f_equal; auto.
Qed.

Lemma oct_bits s a b : 0 <= s < 7 -> septet a -> septet b ->
  [oct s a b] = octets_of_bits (skipn (Z.to_nat s) (bits7 a) ++ firstn (Z.to_nat s + 1) (bits7 b)).
Proof. intros Hs Ha Hb. apply list_eqb_eq. apply (sweep3_sound _ oct_matches_bits_all); auto. Qed.

Lemma spec_pack_chunk c0 c1 c2 c3 c4 c5 c6 c7 rest :
  septet c0 -> septet c1 -> septet c2 -> septet c3 -> septet c4 -> septet c5 -> septet c6 -> septet c7 ->
  spec_pack (c0 :: c1 :: c2 :: c3 :: c4 :: c5 :: c6 :: c7 :: rest) =
  [oct 0 c0 c1; oct 1 c1 c2; oct 2 c2 c3; oct 3 c3 c4; oct 4 c4 c5; oct 5 c5 c6; oct 6 c6 c7]
  ++ spec_pack rest.
Proof.
  intros H0 H1 H2 H3 H4 H5 H6 H7. unfold spec_pack.
  cbn [flat_map bits7 app octets_of_bits].
  pose proof (oct_bits 0 c0 c1 ltac:(lia) H0 H1) as E0.
  pose proof (oct_bits 1 c1 c2 ltac:(lia) H1 H2) as E1.
  pose proof (oct_bits 2 c2 c3 ltac:(lia) H2 H3) as E2.
  pose proof (oct_bits 3 c3 c4 ltac:(lia) H3 H4) as E3.
  pose proof (oct_bits 4 c4 c5 ltac:(lia) H4 H5) as E4.
  pose proof (oct_bits 5 c5 c6 ltac:(lia) H5 H6) as E5.
  pose proof (oct_bits 6 c6 c7 ltac:(lia) H6 H7) as E6.
  cbn [Z.to_nat Pos.to_nat Pos.iter_op Nat.add skipn firstn bits7 app octets_of_bits] in E0, E1, E2, E3, E4, E5, E6.
  injection E0 as ->. injection E1 as ->. injection E2 as ->. injection E3 as ->.
  injection E4 as ->. injection E5 as ->. injection E6 as ->.
  reflexivity.
Qed.

(* ---------- tails shorter than one period, and the induction principle ---------- *)

Lemma septet0 : septet 0.
Proof. unfold septet. lia. Qed.

Ltac oct_to_bits s a b Ha Hb :=
  let E := fresh "E" in
  pose proof (oct_bits s a b ltac:(lia) Ha Hb) as E;
  cbn [Z.to_nat Pos.to_nat Pos.iter_op Nat.add skipn firstn bits7 app octets_of_bits] in E;
  injection E as ->.

Lemma pack7_spec_tail l : (length l < 8)%nat -> Forall septet l -> pack7 l = spec_pack l.
Proof.
  intros Hlen Hall. pose proof septet0 as Hz.
  destruct l as [|c0 [|c1 [|c2 [|c3 [|c4 [|c5 [|c6 [|c7 l]]]]]]]];
    [| | | | | | | | cbn [length] in Hlen; lia].
  - reflexivity.
  - inversion_clear Hall as [|? ? H0 _].
    change (pack7 [c0]) with [oct 0 c0 0]. unfold spec_pack. cbn [flat_map bits7 app octets_of_bits].
    oct_to_bits 0 c0 0 H0 Hz. reflexivity.
  - inversion_clear Hall as [|? ? H0 Hall']. inversion_clear Hall' as [|? ? H1 _].
    change (pack7 [c0; c1]) with [oct 0 c0 c1; oct 1 c1 0]. unfold spec_pack. cbn [flat_map bits7 app octets_of_bits].
    oct_to_bits 0 c0 c1 H0 H1. oct_to_bits 1 c1 0 H1 Hz. reflexivity.
  - inversion_clear Hall as [|? ? H0 Hall']. inversion_clear Hall' as [|? ? H1 Hall]. inversion_clear Hall as [|? ? H2 _].
    change (pack7 [c0; c1; c2]) with [oct 0 c0 c1; oct 1 c1 c2; oct 2 c2 0].
    unfold spec_pack. cbn [flat_map bits7 app octets_of_bits].
    oct_to_bits 0 c0 c1 H0 H1. oct_to_bits 1 c1 c2 H1 H2. oct_to_bits 2 c2 0 H2 Hz. reflexivity.
  - inversion_clear Hall as [|? ? H0 Hall']. inversion_clear Hall' as [|? ? H1 Hall]. inversion_clear Hall as [|? ? H2 Hall'].
    inversion_clear Hall' as [|? ? H3 _].
    change (pack7 [c0; c1; c2; c3]) with [oct 0 c0 c1; oct 1 c1 c2; oct 2 c2 c3; oct 3 c3 0].
    unfold spec_pack. cbn [flat_map bits7 app octets_of_bits].
    oct_to_bits 0 c0 c1 H0 H1. oct_to_bits 1 c1 c2 H1 H2. oct_to_bits 2 c2 c3 H2 H3. oct_to_bits 3 c3 0 H3 Hz.
    reflexivity.
  - inversion_clear Hall as [|? ? H0 Hall']. inversion_clear Hall' as [|? ? H1 Hall]. inversion_clear Hall as [|? ? H2 Hall'].
    inversion_clear Hall' as [|? ? H3 Hall]. inversion_clear Hall as [|? ? H4 _].
    change (pack7 [c0; c1; c2; c3; c4]) with [oct 0 c0 c1; oct 1 c1 c2; oct 2 c2 c3; oct 3 c3 c4; oct 4 c4 0].
    unfold spec_pack. cbn [flat_map bits7 app octets_of_bits].
    oct_to_bits 0 c0 c1 H0 H1. oct_to_bits 1 c1 c2 H1 H2. oct_to_bits 2 c2 c3 H2 H3. oct_to_bits 3 c3 c4 H3 H4.
    oct_to_bits 4 c4 0 H4 Hz. reflexivity.
  - inversion_clear Hall as [|? ? H0 Hall']. inversion_clear Hall' as [|? ? H1 Hall]. inversion_clear Hall as [|? ? H2 Hall'].
    inversion_clear Hall' as [|? ? H3 Hall]. inversion_clear Hall as [|? ? H4 Hall']. inversion_clear Hall' as [|? ? H5 _].
    change (pack7 [c0; c1; c2; c3; c4; c5]) with
      [oct 0 c0 c1; oct 1 c1 c2; oct 2 c2 c3; oct 3 c3 c4; oct 4 c4 c5; oct 5 c5 0].
    unfold spec_pack. cbn [flat_map bits7 app octets_of_bits].
    oct_to_bits 0 c0 c1 H0 H1. oct_to_bits 1 c1 c2 H1 H2. oct_to_bits 2 c2 c3 H2 H3. oct_to_bits 3 c3 c4 H3 H4.
    oct_to_bits 4 c4 c5 H4 H5. oct_to_bits 5 c5 0 H5 Hz. reflexivity.
  - inversion_clear Hall as [|? ? H0 Hall']. inversion_clear Hall' as [|? ? H1 Hall]. inversion_clear Hall as [|? ? H2 Hall'].
    inversion_clear Hall' as [|? ? H3 Hall]. inversion_clear Hall as [|? ? H4 Hall']. inversion_clear Hall' as [|? ? H5 Hall].
    inversion_clear Hall as [|? ? H6 _].
    change (pack7 [c0; c1; c2; c3; c4; c5; c6]) with
      [oct 0 c0 c1; oct 1 c1 c2; oct 2 c2 c3; oct 3 c3 c4; oct 4 c4 c5; oct 5 c5 c6; oct 6 c6 0].
    unfold spec_pack. cbn [flat_map bits7 app octets_of_bits].
    oct_to_bits 0 c0 c1 H0 H1. oct_to_bits 1 c1 c2 H1 H2. oct_to_bits 2 c2 c3 H2 H3. oct_to_bits 3 c3 c4 H3 H4.
    oct_to_bits 4 c4 c5 H4 H5. oct_to_bits 5 c5 c6 H5 H6. oct_to_bits 6 c6 0 H6 Hz. reflexivity.
Qed.

Lemma chunk8_ind (P : list Z -> Prop) :
  (forall l, (length l < 8)%nat -> P l) ->
  (forall c0 c1 c2 c3 c4 c5 c6 c7 rest, P rest -> P (c0 :: c1 :: c2 :: c3 :: c4 :: c5 :: c6 :: c7 :: rest)) ->
  forall l, P l.
Proof.
  intros Hsmall Hstep l.
  assert (forall n l, (length l <= n)%nat -> P l) as H; [|apply (H (length l)); lia].
  clear l. induction n as [|n IH]; intros l Hl.
  - apply Hsmall. lia.
  - destruct l as [|c0 [|c1 [|c2 [|c3 [|c4 [|c5 [|c6 [|c7 rest]]]]]]]];
      try (apply Hsmall; cbn [length]; lia).
    apply Hstep. apply IH. cbn [length] in Hl. lia.
Qed.

Theorem pack7_is_spec_pack l : Forall septet l -> pack7 l = spec_pack l.
Proof.
  induction l using chunk8_ind.
  - apply pack7_spec_tail; auto.
  - intros Hall.
    inversion_clear Hall as [|? ? H0 Hall']. inversion_clear Hall' as [|? ? H1 Hall]. inversion_clear Hall as [|? ? H2 Hall'].
    inversion_clear Hall' as [|? ? H3 Hall]. inversion_clear Hall as [|? ? H4 Hall']. inversion_clear Hall' as [|? ? H5 Hall].
    inversion_clear Hall as [|? ? H6 Hall']. inversion_clear Hall' as [|? ? H7 Hall].
    rewrite pack7_chunk, spec_pack_chunk by assumption. f_equal. auto.
Qed.

Lemma pack_loop_length codes n index count : length (pack_loop codes n index count) = n.
Proof. revert index count. induction n as [|n IH]; intros; cbn [pack_loop length]; [reflexivity|]. rewrite IH. reflexivity. Qed.

Theorem pack7_length l : Z.of_nat (length (pack7 l)) = (7 * Z.of_nat (length l) + 7) / 8.
Proof.
  unfold pack7. rewrite pack_loop_length.
  rewrite Z2Nat.id by (apply packed_len_nonneg; lia).
  unfold packed_len. destruct (Z.ltb_spec 0 ((Z.of_nat (length l) * 7) mod 8)); lia.
Qed.

(* ---------- octets are octets ---------- *)

Lemma oct_is_octet_all : sweep3 (fun s a b => is_octet (oct s a b)) = true.
Proof. vm_compute. reflexivity. Qed.

Lemma nthZ_septet l i : Forall septet l -> septet (nthZ l i).
Proof.
  intros H. unfold nthZ. destruct (nth_in_or_default i l 0) as [Hin|Heq]; [|rewrite Heq; apply septet0].
  rewrite Forall_forall in H. auto.
Qed.

Lemma pack_loop_octets codes n index count :
  Forall septet codes -> 0 <= index -> forallb is_octet (pack_loop codes n index count) = true.
Proof.
  intros Hc. revert index count. induction n as [|n IH]; intros index count Hi; [reflexivity|].
  cbn [pack_loop forallb]. rewrite IH by lia. rewrite andb_true_r.
  apply (sweep3_sound _ oct_is_octet_all (index mod 7)); [lia| |]; apply nthZ_septet; auto.
Qed.

Lemma pack7_octets l : Forall septet l -> forallb is_octet (pack7 l) = true.
Proof.
  intros H. unfold pack7. apply pack_loop_octets; [|lia].
  apply Forall_app; split; [auto|]. constructor; [apply septet0|constructor].
Qed.

(* ---------- unpacking ---------- *)

Ltac norm_pows :=
  repeat match goal with
         | |- context [2 ^ ?k] => let v := eval vm_compute in (2 ^ k) in change (2 ^ k) with v
         end.

Ltac elt := unfold oct, septet in *; norm_pows; lia.

Lemma unpack_chunk c0 c1 c2 c3 c4 c5 c6 c7 X :
  septet c0 -> septet c1 -> septet c2 -> septet c3 -> septet c4 -> septet c5 -> septet c6 -> septet c7 ->
  unpack_loop ([oct 0 c0 c1; oct 1 c1 c2; oct 2 c2 c3; oct 3 c3 c4; oct 4 c4 c5; oct 5 c5 c6; oct 6 c6 c7] ++ X) 0 0 =
  c0 :: c1 :: c2 :: c3 :: c4 :: c5 :: c6 :: c7 :: unpack_loop X 0 0.
Proof.
  intros H0 H1 H2 H3 H4 H5 H6 H7.
  transitivity (
    ((oct 0 c0 c1 mod 128) * 1 + 0) ::
    ((oct 1 c1 c2 mod 64) * 2 + oct 0 c0 c1 / 128) ::
    ((oct 2 c2 c3 mod 32) * 4 + oct 1 c1 c2 / 64) ::
    ((oct 3 c3 c4 mod 16) * 8 + oct 2 c2 c3 / 32) ::
    ((oct 4 c4 c5 mod 8) * 16 + oct 3 c3 c4 / 16) ::
    ((oct 5 c5 c6 mod 4) * 32 + oct 4 c4 c5 / 8) ::
    ((oct 6 c6 c7 mod 2) * 64 + oct 5 c5 c6 / 4) ::
    (oct 6 c6 c7 / 2) :: unpack_loop X 0 0); [reflexivity|].
  repeat (apply (f_equal2 (@cons Z)); [elt|]). reflexivity.
Qed.

Definition pad_of (n : nat) : list Z := if (Z.of_nat n mod 8 =? 7) then [0] else [].

Lemma unpack_pack_tail l : (length l < 8)%nat -> Forall septet l ->
  unpack7 (pack7 l) = l ++ pad_of (length l).
Proof.
  intros Hlen Hall.
  destruct l as [|c0 [|c1 [|c2 [|c3 [|c4 [|c5 [|c6 [|c7 l]]]]]]]];
    [| | | | | | | | cbn [length] in Hlen; lia].
  - reflexivity.
  - inversion_clear Hall as [|? ? H0 _].
    transitivity [(oct 0 c0 0 mod 128) * 1 + 0]; [reflexivity|].
    cbn [app pad_of length]. repeat (apply (f_equal2 (@cons Z)); [elt|]). reflexivity.
  - inversion_clear Hall as [|? ? H0 Hall']. inversion_clear Hall' as [|? ? H1 _].
    transitivity [(oct 0 c0 c1 mod 128) * 1 + 0; (oct 1 c1 0 mod 64) * 2 + oct 0 c0 c1 / 128]; [reflexivity|].
    repeat (apply (f_equal2 (@cons Z)); [elt|]). reflexivity.
  - inversion_clear Hall as [|? ? H0 Hall']. inversion_clear Hall' as [|? ? H1 Hall]. inversion_clear Hall as [|? ? H2 _].
    transitivity [(oct 0 c0 c1 mod 128) * 1 + 0; (oct 1 c1 c2 mod 64) * 2 + oct 0 c0 c1 / 128;
                  (oct 2 c2 0 mod 32) * 4 + oct 1 c1 c2 / 64]; [reflexivity|].
    repeat (apply (f_equal2 (@cons Z)); [elt|]). reflexivity.
  - inversion_clear Hall as [|? ? H0 Hall']. inversion_clear Hall' as [|? ? H1 Hall]. inversion_clear Hall as [|? ? H2 Hall'].
    inversion_clear Hall' as [|? ? H3 _].
    transitivity [(oct 0 c0 c1 mod 128) * 1 + 0; (oct 1 c1 c2 mod 64) * 2 + oct 0 c0 c1 / 128;
                  (oct 2 c2 c3 mod 32) * 4 + oct 1 c1 c2 / 64; (oct 3 c3 0 mod 16) * 8 + oct 2 c2 c3 / 32]; [reflexivity|].
    repeat (apply (f_equal2 (@cons Z)); [elt|]). reflexivity.
  - inversion_clear Hall as [|? ? H0 Hall']. inversion_clear Hall' as [|? ? H1 Hall]. inversion_clear Hall as [|? ? H2 Hall'].
    inversion_clear Hall' as [|? ? H3 Hall]. inversion_clear Hall as [|? ? H4 _].
    transitivity [(oct 0 c0 c1 mod 128) * 1 + 0; (oct 1 c1 c2 mod 64) * 2 + oct 0 c0 c1 / 128;
                  (oct 2 c2 c3 mod 32) * 4 + oct 1 c1 c2 / 64; (oct 3 c3 c4 mod 16) * 8 + oct 2 c2 c3 / 32;
                  (oct 4 c4 0 mod 8) * 16 + oct 3 c3 c4 / 16]; [reflexivity|].
    repeat (apply (f_equal2 (@cons Z)); [elt|]). reflexivity.
  - inversion_clear Hall as [|? ? H0 Hall']. inversion_clear Hall' as [|? ? H1 Hall]. inversion_clear Hall as [|? ? H2 Hall'].
    inversion_clear Hall' as [|? ? H3 Hall]. inversion_clear Hall as [|? ? H4 Hall']. inversion_clear Hall' as [|? ? H5 _].
    transitivity [(oct 0 c0 c1 mod 128) * 1 + 0; (oct 1 c1 c2 mod 64) * 2 + oct 0 c0 c1 / 128;
                  (oct 2 c2 c3 mod 32) * 4 + oct 1 c1 c2 / 64; (oct 3 c3 c4 mod 16) * 8 + oct 2 c2 c3 / 32;
                  (oct 4 c4 c5 mod 8) * 16 + oct 3 c3 c4 / 16; (oct 5 c5 0 mod 4) * 32 + oct 4 c4 c5 / 8]; [reflexivity|].
    repeat (apply (f_equal2 (@cons Z)); [elt|]). reflexivity.
  - inversion_clear Hall as [|? ? H0 Hall']. inversion_clear Hall' as [|? ? H1 Hall]. inversion_clear Hall as [|? ? H2 Hall'].
    inversion_clear Hall' as [|? ? H3 Hall]. inversion_clear Hall as [|? ? H4 Hall']. inversion_clear Hall' as [|? ? H5 Hall].
    inversion_clear Hall as [|? ? H6 _].
    transitivity [(oct 0 c0 c1 mod 128) * 1 + 0; (oct 1 c1 c2 mod 64) * 2 + oct 0 c0 c1 / 128;
                  (oct 2 c2 c3 mod 32) * 4 + oct 1 c1 c2 / 64; (oct 3 c3 c4 mod 16) * 8 + oct 2 c2 c3 / 32;
                  (oct 4 c4 c5 mod 8) * 16 + oct 3 c3 c4 / 16; (oct 5 c5 c6 mod 4) * 32 + oct 4 c4 c5 / 8;
                  (oct 6 c6 0 mod 2) * 64 + oct 5 c5 c6 / 4; oct 6 c6 0 / 2]; [reflexivity|].
    cbn [app pad_of length]. change (Z.of_nat 7 mod 8 =? 7) with true. cbv iota.
    repeat (apply (f_equal2 (@cons Z)); [elt|]). reflexivity.
Qed.

(* 8n-1 septets leave seven zero pad bits, which unpack as one extra zero septet *)
Theorem unpack_pack l : Forall septet l -> unpack7 (pack7 l) = l ++ pad_of (length l).
Proof.
  induction l using chunk8_ind.
  - apply unpack_pack_tail; auto.
  - intros Hall.
    inversion_clear Hall as [|? ? H0 Hall']. inversion_clear Hall' as [|? ? H1 Hall]. inversion_clear Hall as [|? ? H2 Hall'].
    inversion_clear Hall' as [|? ? H3 Hall]. inversion_clear Hall as [|? ? H4 Hall']. inversion_clear Hall' as [|? ? H5 Hall].
    inversion_clear Hall as [|? ? H6 Hall']. inversion_clear Hall' as [|? ? H7 Hall].
    rewrite pack7_chunk. unfold unpack7 in *. rewrite unpack_chunk by assumption.
    rewrite IHl by assumption. cbn [app length]. unfold pad_of.
    replace (Z.of_nat (S (S (S (S (S (S (S (S (length l))))))))) mod 8) with (Z.of_nat (length l) mod 8) by lia.
    reflexivity.
Qed.

(* ---------- text level ---------- *)

Lemma packed_chars_app a b esc :
  packed_chars (a ++ b) esc =
  let '(r1, e1) := packed_chars a esc in
  let '(r2, e2) := packed_chars b e1 in (r1 ++ r2, e2).
Proof.
  revert esc. induction a as [|x a IH]; intros esc; cbn [app packed_chars].
  - destruct (packed_chars b esc); reflexivity.
  - destruct (decode_char x esc) as [ch esc']. rewrite IH.
    destruct (packed_chars a esc') as [r1 e1].
    destruct esc'; [destruct (packed_chars b e1); reflexivity|].
    destruct ch; destruct (packed_chars b e1); reflexivity.
Qed.

Lemma packed_chars_of_strict_decode codes esc s :
  gsm_decode_loop Strict codes esc = Ok s -> packed_chars codes esc = (s, false).
Proof.
  revert esc s. induction codes as [|b rest IH]; intros esc s H; cbn [gsm_decode_loop packed_chars] in *.
  - destruct esc; [discriminate|]. injection H as <-. reflexivity.
  - destruct (decode_char b esc) as [ch esc']. destruct esc'.
    + rewrite (IH true s H). reflexivity.
    + destruct ch as [c|]; [|discriminate].
      destruct (gsm_decode_loop Strict rest false) as [s'|] eqn:E; cbn [rmap] in H; [|discriminate].
      injection H as <-. rewrite (IH false s' E). reflexivity.
Qed.

Lemma zero_decodes_to_at : decode_char 0 false = (Some 64, false).
Proof. vm_compute. reflexivity. Qed.

Definition at_pad (n : nat) : list Z := if (Z.of_nat n mod 8 =? 7) then [64] else [].

Theorem packed_roundtrip s :
  is_gsm_text s = true ->
  forall m, exists codes,
    to_gsm_codes m s = Some codes /\ Forall septet codes
    /\ gsm_packed_encode m s = Ok (spec_pack codes)
    /\ Z.of_nat (length (spec_pack codes)) = (7 * Z.of_nat (length codes) + 7) / 8
    /\ forall m', gsm_packed_decode m' (spec_pack codes) = Ok (s ++ at_pad (length codes)).
Proof.
  intros Hs m.
  assert (exists codes, to_gsm_codes m s = Some codes) as [codes Hc].
  { destruct m; [apply strict_succeeds_iff; auto | apply replace_always_succeeds | apply ignore_always_succeeds]. }
  exists codes. pose proof (codes_are_septets _ _ _ Hc) as Hsep.
  assert (Forall septet codes) as Hsep' by exact Hsep.
  split; [exact Hc|]. split; [exact Hsep'|].
  rewrite <- (pack7_is_spec_pack codes Hsep').
  split.
  { unfold gsm_packed_encode. rewrite Hc, (pack7_octets codes Hsep'). reflexivity. }
  split; [apply pack7_length|].
  intros m'. unfold gsm_packed_decode. rewrite (unpack_pack codes Hsep').
  pose proof (roundtrip_codes m s codes Hs Hc Strict) as Hd.
  apply packed_chars_of_strict_decode in Hd.
  rewrite packed_chars_app, Hd. unfold pad_of, at_pad.
  destruct (Z.of_nat (length codes) mod 8 =? 7).
  - cbn [packed_chars]. rewrite zero_decodes_to_at. reflexivity.
  - cbn [packed_chars]. reflexivity.
Qed.
