(* C15 - wire discipline: whole PDUs, bind first, echoed sequence numbers, mode respected.
   Model/Wire.v: _send_data as atomic steps between awaits, tasks interleaved arbitrarily, the bound gate as a transition
   system, an independent framer.  harness/C15.py validates the event traces of real concurrent sessions with wire_ok
   (evaluated in Coq) and an oracle; the echo of sequence numbers is C05_one_answer. *)
From Coq Require Import ZArith List Bool.
Import ListNotations.
Require Import AV.Generated.ExnOrder AV.Generated.SmppConsts AV.Model.Base AV.Model.Codec AV.Model.Split AV.Model.TimeFmt AV.Model.Pdu AV.Model.Wire AV.Model.Recv AV.Model.RecvActions
               AV.Proofs.WireDisciplineProofs AV.Proofs.RecvActionsProofs.
Open Scope Z_scope.

(* every PDU the library builds carries its own length, so whatever tasks write and however they interleave, an independent
   framer cuts the byte stream back into exactly the PDUs written, in order, with nothing left over *)
Theorem C15_frames_of_whole_pdus :
  (forall default msg b, encode default msg = Ok b -> whole b)
  /\ (forall tr, Forall whole (writes tr) -> frames (S (length (writes tr))) (wire_bytes tr) = (writes tr, [])).
Proof. split; [exact encoded_pdus_are_whole | exact stream_is_whole_pdus]. Qed.

(* any number of tasks (sender, receiver answering, keep-alive, shutdown), each sending any PDUs through _send_data,
   interleaved in ANY way at their await points: every write was announced to the sending hook before, with exactly those bytes *)
Theorem C15_every_write_announced :
  forall tasks l, merge (map task_events tasks) l -> ann_check [] l = true.
Proof. exact every_write_announced. Qed.

(* the bound gate: in every run of the connect / bind / bound / cycle-end transition system with any number of gated writers,
   the bind request is the first PDU of its connection and every other PDU is written on a connection whose bind has succeeded *)
Theorem C15_gate :
  forall ss, g_run g_init ss = true -> Forall write_ok (g_writes g_init ss).
Proof. intros ss H. apply gate_discipline; [exact g_init_inv | exact H]. Qed.

(* mode -> bind command and reported session state *)
Theorem C15_modes :
  mode_command BindMode_TRANSMITTER = SmppCommand_BIND_TRANSMITTER /\ mode_state BindMode_TRANSMITTER = SmppSessionState_BOUND_TX
  /\ mode_command BindMode_RECEIVER = SmppCommand_BIND_RECEIVER /\ mode_state BindMode_RECEIVER = SmppSessionState_BOUND_RX
  /\ mode_command BindMode_TRANSCEIVER = SmppCommand_BIND_TRANSCEIVER /\ mode_state BindMode_TRANSCEIVER = SmppSessionState_BOUND_TRX.
Proof. exact modes_table. Qed.

(* every PDU the receiver has read (whose parsing does not end in an exception outside the model, cf. C05) is handed to the received
   hook exactly once - also when the connection fails at the moment its answer is written (any of the writes of its handling may
   fail, independently): Model/RecvActions.v, whose order facts the translator reads off _receive_data / _handle_request *)
Theorem C15_handed_over_exactly_once :
  forall default pdu h ok,
  (forall e, rx_out (react default pdu h) <> ORaise e) ->
  hook_calls (actions (react default pdu h)) ok 0 = 1%nat.
Proof. exact handed_over_exactly_once. Qed.

(* ... and when the session is torn down while the receiver handles a PDU it has read (it is cancelled inside the handler - the correlator's
   sweep awaiting the application's send_error hook - or inside the received hook): the handling runs to its end *)
Theorem C15_read_pdu_survives_cancellation : forall is_request ph, hook_calls_when_cancelled is_request ph = 1%nat.
Proof. exact read_pdu_survives_cancellation. Qed.

(* the answer to a parsed request (deliver_sm, enquire_link, unbind) is written only after the received hook returned *)
Theorem C15_answer_after_hook :
  forall default pdu h,
  rx_parsed (react default pdu h) = true -> (forall e, rx_out (react default pdu h) <> ORaise e) ->
  hook_precedes_writes (actions (react default pdu h)) = true.
Proof. exact parsed_answered_after_hook. Qed.

Example C15_nonvacuous :
  let b := [0;0;0;16; 0;0;0;9; 0;0;0;0; 0;0;0;1] in
  let e := [0;0;0;16; 0;0;0;21; 0;0;0;0; 0;0;0;2] in
  wire_ok 9 [EConnect; EAnnounce b; EWrite b; EAnnounce e; EBound; EWrite e] = true
  /\ wire_ok 9 [EConnect; EAnnounce b; EWrite b; EAnnounce e; EWrite e; EBound] = false
  /\ merge (map task_events [[b]; [e]]) [EAnnounce b; EAnnounce e; EWrite e; EWrite b]
  /\ g_run g_init [GConnect; GBindWrite b; GBindOk; GTaskWrite e; GCycleEnd; GConnect; GBindWrite b] = true
  /\ g_run g_init [GConnect; GBindWrite b; GTaskWrite e] = false.
Proof.
  cbv zeta. split; [vm_compute; reflexivity|]. split; [vm_compute; reflexivity|]. split; [|split; vm_compute; reflexivity].
  cbn [map task_events flat_map app].
  apply (MergeStep [] _ _ [_]). apply (MergeStep [_] _ _ []). apply (MergeStep [_] _ _ []). apply (MergeStep [] _ _ [_]).
  apply MergeDone. repeat constructor.
Qed.

(* an unparsable deliver_sm (body 00 01) whose generic_nack cannot be written: the hook still gets the PDU, once *)
Example C15_actions_nonvacuous :
  let pdu := [0;0;0;18; 0;0;0;5; 0;0;0;0; 0;0;16;146; 0;1] in
  ser_hook_calls EncGsm pdu true = [1] /\ ser_hook_calls EncGsm pdu false = [1]
  /\ match parse_header (firstn 16 pdu) with Ok h => length (rx_sent (react EncGsm pdu h)) = 1%nat /\ rx_parsed (react EncGsm pdu h) = false | Err _ => False end.
Proof. cbn zeta. split; [vm_compute; reflexivity|]. split; [vm_compute; reflexivity|]. vm_compute. split; reflexivity. Qed.
