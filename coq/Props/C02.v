(* C02 - delivery receipts are attributed to the message they report on. *)
From Coq Require Import ZArith QArith List Bool Lia.
Import ListNotations.
Require Import AV.Generated.ExnOrder AV.Generated.SmppConsts AV.Generated.Handled
               AV.Model.Base AV.Model.PyDict AV.Model.Limiter AV.Model.Correlator AV.Model.Seq AV.Model.Handlers
               AV.Proofs.HandlersProofs AV.Proofs.ConcurrentProofs AV.Proofs.ConcurrentReceipts.
Open Scope Z_scope.

(* an accepted submit_sm_resp stores the ORIGINAL message under the SMSC's message id (any state) *)
Theorem C02_accepted_response_stores_original :
  forall s r mid e,
  mem (rs_cmd r) handled_response_commands = true -> rs_cmd r = SmppCommand_SUBMIT_SM_RESP ->
  rs_status r = SmppCommandStatus_ESME_ROK ->
  dget (rs_seq r) (c_store (h_corr s)) = Some e -> sm_cmd (e_msg e) = SmppCommand_SUBMIT_SM ->
  dget mid (h_deliv (fst (handle_response s r mid))) = Some {| e_at := 0%Q; e_msg := e_msg e; e_id := h_next s |}.
Proof. exact accepted_response_stores_original. Qed.

(* a receipt naming a stored id of an unsegmented message reaches the hook with that message's
   identity and consumes the id, so a duplicate is an unknown id afterwards (any state) *)
Theorem C02_receipt_plain :
  forall s r e,
  dget (rc_id r) (h_deliv s) = Some e -> dget (sm_seq (e_msg e)) (c_seg (h_corr s)) = None ->
  exists s', handle_receipt s r true = (s', [HReceipt (rc_uid r) (sm_log (e_msg e))])
             /\ h_deliv s' = ddel (rc_id r) (h_deliv s) /\ h_corr s' = h_corr s.
Proof. exact receipt_plain. Qed.

(* ... in ANY state of the segment bookkeeping: the sequence number of an unsegmented message may by now belong to a segment
   of a newer message (numbers come round again after a restart); its receipt is still its own and the bookkeeping is untouched *)
Theorem C02_receipt_unsegmented :
  forall s r e,
  dget (rc_id r) (h_deliv s) = Some e -> is_segment (e_msg e) = false ->
  exists s', handle_receipt s r true = (s', [HReceipt (rc_uid r) (sm_log (e_msg e))])
             /\ h_deliv s' = ddel (rc_id r) (h_deliv s) /\ h_corr s' = h_corr s.
Proof. exact receipt_unsegmented. Qed.

(* whatever integer the receipt text carries as 'err' (the theorems below speak of codes below the internal status markers): a receipt
   is handled exactly like the one that carries the booked code, which always lies in that range *)
Theorem C02_any_error_code :
  (forall s r b, handle_receipt s r b = handle_receipt s (booked r) b)
  /\ (forall r, 0 <= rc_err (booked r) < STATUS_SENT)
  /\ (forall r, 0 <= rc_err r < STATUS_SENT -> booked r = r).
Proof.
  split; [exact receipt_booked|]. split; [intros r; apply receipt_code_range|].
  intros [u i e] H. unfold booked. cbn [rc_uid rc_id rc_err] in *. rewrite (receipt_code_id _ H). reflexivity.
Qed.

(* unknown ids and receipts without id are handed over with empty identity; nothing changes *)
Theorem C02_receipt_unknown :
  (forall s r, dget (rc_id r) (h_deliv s) = None -> handle_receipt s r true = (s, [HReceipt (rc_uid r) 0]))
  /\ (forall s r, handle_receipt s r false = (s, [HReceipt (rc_uid r) 0])).
Proof. split; [exact receipt_unknown_id | exact receipt_without_id]. Qed.

(* one segmented message accepted in full, k >= 2 segments (no bound), ANY admissible interleaving
   of its puts (in the order sent: segment 1 first), accepting responses and receipts, any error codes below the
   internal status range:
   every receipt but the completing one yields the placeholder; the completing one yields exactly one
   receipt event carrying the message's identity *)
Theorem C02_segmented_receipts :
  forall r log k sq md uid gs,
  (2 <= k <= 255)%nat ->
  (forall i j, (i < k)%nat -> (j < k)%nat -> sq i = sq j -> i = j) ->
  (forall i j, (i < k)%nat -> (j < k)%nat -> md i = md j -> i = j) ->
  valid k (fun _ => PNot) None gs ->
  Forall2 agrees (spec_outs log k (fun _ => PNot) None gs) (hrun_each hinit (map (conc r log k sq md uid) gs)).
Proof. exact segmented_receipts. Qed.

(* ANY NUMBER n of segmented messages outstanding at the same time (distinct sequence numbers and SMSC message ids; ANY segmentation
   references, also equal ones - the 8-bit reference is re-used while older messages still wait for receipts; each accepted in full,
   any number >= 2 of segments), ANY interleaving of their puts, accepting responses and receipts in which the segments of two messages
   with the same reference are not stored interleaved: at the events of message j the hook gets exactly what it would get if message j
   were alone - placeholders, then one receipt event with j's identity at the receipt that completes it. The other messages' receipts
   cannot complete, duplicate or suppress it *)
Theorem C02_concurrent_receipts :
  forall (n : nat) (D : nat -> mdesc2),
  (forall j, (j < n)%nat ->
     (2 <= m2_k (D j) <= 255)%nat /\ 0 <= m2_r (D j) < 65536
     /\ (forall a b, (a < m2_k (D j))%nat -> (b < m2_k (D j))%nat -> m2_sq (D j) a = m2_sq (D j) b -> a = b)
     /\ (forall a b, (a < m2_k (D j))%nat -> (b < m2_k (D j))%nat -> m2_md (D j) a = m2_md (D j) b -> a = b)) ->
  (forall i j, (i < n)%nat -> (j < n)%nat -> i <> j ->
     (forall a b, (a < m2_k (D i))%nat -> (b < m2_k (D j))%nat -> m2_sq (D i) a <> m2_sq (D j) b)
     /\ (forall a b, (a < m2_k (D i))%nat -> (b < m2_k (D j))%nat -> m2_md (D i) a <> m2_md (D j) b)) ->
  forall (gs : list gev2) (j : nat),
  gvalid2 n D (fun _ _ => PNot) (fun _ => None) gs -> (j < n)%nat ->
  valid (m2_k (D j)) (fun _ => PNot) None (proj2 j gs)
  /\ Forall2 agrees (spec_outs (m2_log (D j)) (m2_k (D j)) (fun _ => PNot) None (proj2 j gs))
                    (pick2 j gs (hrun_each hinit (map (gconc2 D) gs))).
Proof. exact concurrent_receipts. Qed.

(* non-vacuity: two messages of two segments UNDER THE SAME REFERENCE 5, receipts interleaved; each gets its one receipt event at its own
   last receipt *)
Example C02_concurrent_nonvacuous :
  let D := fun j => match j with
                    | O => {| m2_r := 5; m2_log := 7; m2_k := 2; m2_sq := fun i => 101 + Z.of_nat i; m2_md := fun i => 501 + Z.of_nat i; m2_uid := fun i => 10 + Z.of_nat i |}
                    | _ => {| m2_r := 5; m2_log := 8; m2_k := 2; m2_sq := fun i => 201 + Z.of_nat i; m2_md := fun i => 601 + Z.of_nat i; m2_uid := fun i => 20 + Z.of_nat i |}
                    end in
  let gs := [(0%nat, GPut 0); (0%nat, GPut 1); (1%nat, GPut 0); (1%nat, GPut 1); (0%nat, GResp 0 31); (1%nat, GResp 0 41); (1%nat, GResp 1 42);
             (0%nat, GResp 1 32); (1%nat, GRcpt 1 52 0); (0%nat, GRcpt 0 61 0); (1%nat, GRcpt 0 51 9); (0%nat, GRcpt 1 62 0)] in
  gvalid2 2 D (fun _ _ => PNot) (fun _ => None) gs
  /\ concat (skipn 8 (hrun_each hinit (map (gconc2 D) gs))) = [HRaw; HRaw; HReceipt 51 8; HReceipt 61 7].
Proof.
  cbn zeta. split.
  - cbn. unfold ConcurrentProofs.upd, upd, storing2. cbn. try (assert (STATUS_SENT = 65532) as -> by reflexivity).
    repeat split; try lia; try reflexivity; try discriminate; try (cbn; lia); try (cbn; discriminate);
      try (cbn [snd fst]; intros i Hi Hne _ [H0 (a & Ha & Hq)]; destruct i as [|[|i]]; try lia; try congruence; cbn in H0, Ha, Hq;
           destruct a as [|[|a]]; cbn in Hq; try discriminate; try lia; apply H0; reflexivity);
      intros; discriminate.
  - vm_compute. reflexivity.
Qed.

(* ... and that one is a failing receipt as soon as any segment's receipt reported an error *)
Theorem C02_failing_receipt_wins :
  (forall lrc u e, 0 < e -> lrc_after lrc u e = Some (u, e))
  /\ (forall lrc u e u0 e0, lrc = Some (u0, e0) -> 0 < e0 -> exists u' e', lrc_after lrc u e = Some (u', e') /\ 0 < e')
  /\ (forall u1 e1 u e, e <= 0 -> lrc_after (Some (u1, e1)) u e = Some (u1, e1)).
Proof. split; [exact lrc_new_failure|split; [exact lrc_keeps_failure|exact lrc_first_kept]]. Qed.

Example C02_nonvacuous :
  let seg i := {| sm_uid := 10 + i; sm_cmd := 4; sm_seq := 100 + i; sm_log := 7; sm_sar := (5, i, 2) |} in
  let ok i := {| rs_uid := 20 + i; rs_cmd := 2147483652; rs_seq := 100 + i; rs_status := 0 |} in
  ser_hrun [HPut (seg 1); HPut (seg 2); HResponse (ok 1) 501; HResponse (ok 2) 502;
            HRcpt {| rc_uid := 32; rc_id := 502; rc_err := 0 |} true;
            HRcpt {| rc_uid := 31; rc_id := 501; rc_err := 3 |} true;
            HRcpt {| rc_uid := 33; rc_id := 501; rc_err := 0 |} true]
  = [0; 1; 21; 7; 2147483652; 0; 0; 2; 31; 7; 2; 33; 0; -5; 0; 2; -7; -8; -9; -10]
  /\ valid 2 (fun _ => PNot) None [GPut 0; GPut 1; GResp 0 21; GResp 1 22; GRcpt 1 32 0; GRcpt 0 31 3].
Proof.
  split; [vm_compute; reflexivity|].
  cbn. unfold upd. cbn. assert (STATUS_SENT = 65532) as -> by reflexivity. repeat split; try lia; try reflexivity; try discriminate; intros; discriminate.
Qed.
