(* C02 - delivery receipts are attributed to the message they report on. *)
From Coq Require Import ZArith QArith List Bool Lia.
Import ListNotations.
Require Import AV.Generated.ExnOrder AV.Generated.SmppConsts AV.Generated.Handled
               AV.Model.Base AV.Model.PyDict AV.Model.Limiter AV.Model.Correlator AV.Model.Seq AV.Model.Handlers
               AV.Proofs.HandlersProofs.
Open Scope Z_scope.

(* an accepted submit_sm_resp stores the ORIGINAL message under the SMSC's message id (any state) *)
Theorem C02_accepted_response_stores_original :
  forall s r mid e,
  mem (rs_cmd r) handled_response_commands = true -> rs_cmd r = SmppCommand_SUBMIT_SM_RESP ->
  rs_status r = SmppCommandStatus_ESME_ROK ->
  dget (rs_seq r) (c_store (h_corr s)) = Some e -> sm_cmd (e_msg e) = SmppCommand_SUBMIT_SM ->
  dget mid (h_deliv (fst (handle_response s r mid))) = Some {| e_at := 0%Q; e_msg := e_msg e; e_id := h_next s |}.
Proof. exact accepted_response_stores_original. Qed.

(* a receipt naming a stored id of an unsegmented message reaches the hook with that message's
   identity and consumes the id, so a duplicate is an unknown id afterwards (any state) *)
Theorem C02_receipt_plain :
  forall s r e,
  dget (rc_id r) (h_deliv s) = Some e -> dget (sm_seq (e_msg e)) (c_seg (h_corr s)) = None ->
  exists s', handle_receipt s r true = (s', [HReceipt (rc_uid r) (sm_log (e_msg e))])
             /\ h_deliv s' = ddel (rc_id r) (h_deliv s) /\ h_corr s' = h_corr s.
Proof. exact receipt_plain. Qed.

(* unknown ids and receipts without id are handed over with empty identity; nothing changes *)
Theorem C02_receipt_unknown :
  (forall s r, dget (rc_id r) (h_deliv s) = None -> handle_receipt s r true = (s, [HReceipt (rc_uid r) 0]))
  /\ (forall s r, handle_receipt s r false = (s, [HReceipt (rc_uid r) 0])).
Proof. split; [exact receipt_unknown_id | exact receipt_without_id]. Qed.

(* one segmented message accepted in full, k >= 2 segments (no bound), ANY admissible interleaving
   of its puts (in the order sent: segment 1 first), accepting responses and receipts, any error codes below the
   internal status range:
   every receipt but the completing one yields the placeholder; the completing one yields exactly one
   receipt event carrying the message's identity *)
Theorem C02_segmented_receipts :
  forall r log k sq md uid gs,
  (2 <= k)%nat ->
  (forall i j, (i < k)%nat -> (j < k)%nat -> sq i = sq j -> i = j) ->
  (forall i j, (i < k)%nat -> (j < k)%nat -> md i = md j -> i = j) ->
  valid k (fun _ => PNot) None gs ->
  Forall2 agrees (spec_outs log k (fun _ => PNot) None gs) (hrun_each hinit (map (conc r log k sq md uid) gs)).
Proof. exact segmented_receipts. Qed.

(* ... and that one is a failing receipt as soon as any segment's receipt reported an error *)
Theorem C02_failing_receipt_wins :
  (forall lrc u e, 0 < e -> lrc_after lrc u e = Some (u, e))
  /\ (forall lrc u e u0 e0, lrc = Some (u0, e0) -> 0 < e0 -> exists u' e', lrc_after lrc u e = Some (u', e') /\ 0 < e')
  /\ (forall u1 e1 u e, e <= 0 -> lrc_after (Some (u1, e1)) u e = Some (u1, e1)).
Proof. split; [exact lrc_new_failure|split; [exact lrc_keeps_failure|exact lrc_first_kept]]. Qed.

Example C02_nonvacuous :
  let seg i := {| sm_uid := 10 + i; sm_cmd := 4; sm_seq := 100 + i; sm_log := 7; sm_sar := (5, i, 2) |} in
  let ok i := {| rs_uid := 20 + i; rs_cmd := 2147483652; rs_seq := 100 + i; rs_status := 0 |} in
  ser_hrun [HPut (seg 1); HPut (seg 2); HResponse (ok 1) 501; HResponse (ok 2) 502;
            HRcpt {| rc_uid := 32; rc_id := 502; rc_err := 0 |} true;
            HRcpt {| rc_uid := 31; rc_id := 501; rc_err := 3 |} true;
            HRcpt {| rc_uid := 33; rc_id := 501; rc_err := 0 |} true]
  = [0; 1; 21; 7; 2147483652; 0; 0; 2; 31; 7; 2; 33; 0; -5; 0; 2; -7; -8; -9; -10]
  /\ valid 2 (fun _ => PNot) None [GPut 0; GPut 1; GResp 0 21; GResp 1 22; GRcpt 1 32 0; GRcpt 0 31 3].
Proof.
  split; [vm_compute; reflexivity|].
  cbn. unfold upd. cbn. assert (STATUS_SENT = 65532) as -> by reflexivity. repeat split; try lia; try reflexivity; try discriminate; intros; discriminate.
Qed.
