(* C16 - keep-alive: idle links are probed, dead peers are detected, live peers are kept.
   Model/Keeper.v is tied to esme.py by harness/C16.py: inbound traffic patterns and answer delays are played against the
   real _connection_keeper inside ESME.start() on a virtual-time loop; probe times and the drop time are compared. *)
From Coq Require Import ZArith List Bool.
Import ListNotations.
From Coq Require Import Lia.
Require Import AV.Model.Keeper AV.Proofs.KeeperProofs.
Open Scope Z_scope.

(* the probe goes out exactly when nothing has been received for enquire_link_interval: earlier traffic restarts the
   interval at its arrival without a probe; no traffic means a probe at now + interval, not before and not after *)
Theorem C16_probe_exactly_when_idle :
  (forall f interval timeout now arrivals delays horizon a rest,
     now < horizon -> drop_before now arrivals = a :: rest -> a < now + interval ->
     keeper (S f) interval timeout now arrivals delays horizon = keeper f interval timeout a rest delays horizon)
  /\ (forall f interval timeout now arrivals delays horizon,
        now < horizon ->
        (forall a rest, drop_before now arrivals = a :: rest -> now + interval <= a) ->
        keeper (S f) interval timeout now arrivals delays horizon
          = probe f interval timeout (now + interval) (drop_before now arrivals) delays horizon).
Proof. split; [exact step_traffic | exact step_idle]. Qed.

(* the connection is dropped only after socket_timeout of complete silence following a probe, exactly then;
   any arrival before that - the answer or any other PDU - keeps it and the keeper starts over at that arrival *)
Theorem C16_drop_only_after_silence :
  (forall f interval timeout p arrivals horizon,
     p < horizon -> (forall a rest, arrivals = a :: rest -> p + timeout <= a) ->
     probe (S f) interval timeout p arrivals (None :: []) horizon = ([p], if p + timeout <? horizon then Some (p + timeout) else None))
  /\ (forall f interval timeout p arrivals delays horizon a rest,
        p < horizon ->
        (match delays with Some d :: _ => insert (p + d) arrivals | _ => arrivals end) = a :: rest -> a < p + timeout ->
        probe (S f) interval timeout p arrivals delays horizon =
          (p :: fst (keeper f interval timeout a rest (tl delays) horizon), snd (keeper f interval timeout a rest (tl delays) horizon))).
Proof. split; [exact probe_silent | exact probe_answered]. Qed.

(* a peer that answers every probe within the time-out is never dropped: any interval, time-out, other traffic, horizon *)
Theorem C16_live_peer_never_dropped :
  forall fuel interval timeout arrivals delays horizon,
  answers_in_time timeout delays -> (fuel <= length delays)%nat ->
  snd (keeper fuel interval timeout 0 arrivals delays horizon) = None.
Proof. exact live_peer_never_dropped. Qed.

(* a silent peer: one probe after exactly the interval, dropped exactly socket_timeout later *)
Theorem C16_silent_peer_dropped :
  forall fuel interval timeout horizon delays,
  0 < interval -> 0 < timeout -> interval + timeout < horizon -> Forall (fun d => d = None) delays ->
  keeper (S (S fuel)) interval timeout 0 [] delays horizon = ([interval], Some (interval + timeout)).
Proof. exact silent_peer_dropped. Qed.

Example C16_nonvacuous :
  ser_keeper 30000 10000 [] [Some 500; None] 200000 = [2; 30000; 60500; 1; 70500]
  /\ ser_keeper 30000 10000 [29999; 60000] [Some 0; Some 9999; Some 10000] 200000 = [3; 59999; 90000; 129999; 1; 139999]
  /\ answers_in_time 10000 [Some 0; Some 9999].
Proof. split; [vm_compute; reflexivity|]. split; [vm_compute; reflexivity|]. repeat constructor; lia. Qed.
