(* C04 - bytes on the wire are exactly what SMPP 3.4 prescribes, in both directions.
   Spec/Smpp34.v is written from the specification alone; Model/Pdu.v is tied to protocol.py by the
   correspondence runs of harness/C03.py and harness/C04.py (the latter on PDUs built by an independent encoder). *)
From Coq Require Import ZArith List Bool.
Import ListNotations.
Require Import AV.Generated.ExnOrder AV.Generated.SmppConsts AV.Model.Base AV.Model.Codec AV.Model.Split AV.Model.TimeFmt AV.Model.Pdu
               AV.Spec.Smpp34 AV.Proofs.PduProofs AV.Proofs.WireProofs AV.Proofs.SmProofs.
Open Scope Z_scope.

(* command ids and the set of supported PDU types are those of section 5.1.2.1 *)
Theorem C04_command_ids :
  model_commands = spec_commands
  /\ forallb (fun c => mem c message_type_map_keys) spec_commands = true
  /\ forallb (fun c => mem c spec_commands) message_type_map_keys = true.
Proof. exact command_ids_are_spec. Qed.

(* every row of the optional-parameter table of section 5.3.2 (tag number, kind, width) is what the code uses *)
Theorem C04_tlv_table :
  forallb row_ok spec_tlv_table = true
  /\ TAG_SAR_MSG_REF_NUM = TLV_SAR_MSG_REF_NUM /\ TAG_SAR_TOTAL_SEGMENTS = TLV_SAR_TOTAL_SEGMENTS
  /\ TAG_SAR_SEGMENT_SEQNUM = TLV_SAR_SEGMENT_SEQNUM /\ TAG_SC_INTERFACE_VERSION = TLV_SC_INTERFACE_VERSION
  /\ TAG_MESSAGE_PAYLOAD = TLV_MESSAGE_PAYLOAD
  /\ SmppDataCoding_ascii = DC_IA5 /\ SmppDataCoding_latin_1 = DC_LATIN1 /\ SmppDataCoding_ucs2 = DC_UCS2
  /\ SmppDataCoding_gsm0338 = DC_DEFAULT.
Proof. exact tlv_table_is_spec. Qed.

(* TLV bytes: tag, length, value - for every table row and every in-range value *)
Theorem C04_tlv_int :
  forall tag size v, In (tag, (KInt, size)) spec_tlv_table -> 0 <= v < 256 ^ size ->
  op_tlv {| op_tag := tag; op_val := TInt v |} = Ok (spec_tlv tag (be size v)).
Proof. exact int_tlv_layout. Qed.

Theorem C04_tlv_cstr :
  forall tag s, In (tag, (KCStr, 0)) spec_tlv_table -> ascii_text s -> Z.of_nat (length s) < 65535 ->
  op_tlv {| op_tag := tag; op_val := TStr s |} = Ok (spec_tlv tag (cz s)).
Proof. exact cstr_tlv_layout. Qed.

Theorem C04_tlv_ostr :
  forall tag size s, In (tag, (KOStr, size)) spec_tlv_table -> tag <> TLV_MESSAGE_PAYLOAD -> octet_text s -> Z.of_nat (length s) <= 65535 ->
  op_tlv {| op_tag := tag; op_val := TStr s |} = Ok (spec_tlv tag s).
Proof. exact ostr_tlv_layout. Qed.

Theorem C04_tlv_flag :
  forall tag, In (tag, (KFlag, 0)) spec_tlv_table ->
  op_tlv {| op_tag := tag; op_val := TBool true |} = Ok (spec_tlv tag []) /\ op_tlv {| op_tag := tag; op_val := TBool false |} = Ok [].
Proof. exact flag_tlv_layout. Qed.

(* encoding direction, header-only classes, responses and binds: whatever is produced is the specification layout *)
Theorem C04_simple_layout :
  forall default msg b, encode default msg = Ok b ->
  match msg with
  | MPlain cmd seq st => b = spec_pdu cmd st seq []
  | MSmResp cmd seq st mid => b = spec_pdu cmd st seq (spec_smresp_body mid)
  | MBind cmd bd => b = spec_pdu cmd (b_status bd) (b_seq bd)
                          (spec_bind_body (b_system_id bd) (b_password bd) (b_system_type bd) (b_iface bd) (b_ton bd) (b_npi bd) (b_range bd))
  | MBindResp cmd seq st sid ver => b = spec_pdu cmd st seq (spec_bindresp_body sid ver)
  | MSm _ _ => True
  end.
Proof. exact simple_layout. Qed.

(* encoding direction, submit_sm/deliver_sm: mandatory fields in the order and widths of 4.4.1/4.6.1, C-octet
   termination, sm_length, then message_payload (when used) and the optional parameters *)
Theorem C04_sm_layout :
  forall default cmd m b, encode default (MSm cmd m) = Ok b ->
  exists sm ptlv opts dc sched valid,
    b = spec_pdu cmd (s_status m) (s_seq m)
          (spec_sm_body {| w_service := s_service m;
                           w_src_ton := ph_ton (s_src m); w_src_npi := ph_npi (s_src m); w_src := ph_number (s_src m);
                           w_dst_ton := ph_ton (s_dst m); w_dst_npi := ph_npi (s_dst m); w_dst := ph_number (s_dst m);
                           w_esm := s_esm m; w_pid := s_pid m; w_prio := s_prio m; w_sched := sched; w_valid := valid;
                           w_regdel := s_regdel m; w_replace := s_replace m; w_dc := dc; w_defmsg := s_defmsg m;
                           w_sm := sm; w_tlvs := ptlv ++ opts |})
    /\ time_to_smpp (s_sched m) = Ok sched /\ time_to_smpp (s_valid m) = Ok valid
    /\ rconcat (map op_tlv (sent_opts m)) = Ok opts
    /\ match s_pre m with
       | [] => exists bytes e', smpp_encode default m (text_of m) = Ok (bytes, e')
                 /\ (match e' with Some e => enc_data_coding e | None => Ok 0 end) = Ok dc
                 /\ ((sm = bytes /\ ptlv = [] /\ Z.of_nat (length bytes) <= 254 /\ s_payload m = [])
                     \/ (sm = [] /\ ptlv = spec_tlv TLV_MESSAGE_PAYLOAD bytes /\ Z.of_nat (length bytes) <= 65535
                         /\ (254 <? Z.of_nat (length bytes)) || (match s_payload m with [] => false | _ => true end) = true))
       | pre => sm = pre /\ ptlv = []
       end
    /\ 0 <= s_seq m <= 4294967295 /\ Z.of_nat (length b) <= 4294967295.
Proof. exact sm_layout. Qed.

(* ... and the data_coding sent is one under which the text bytes decode to the text supplied *)
Theorem C04_text_decodes_under_data_coding :
  forall default m bytes e' dc,
  s_err m = HStrict -> modelled_codec default = true ->
  (forall e, s_enc m = Some e -> modelled_codec e = true /\ (e = EncGsm -> default = EncGsm)) ->
  smpp_encode default m (text_of m) = Ok (bytes, e') ->
  (match e' with Some e => enc_data_coding e | None => Ok 0 end) = Ok dc ->
  exists ce, enc_of_data_coding dc default = Ok ce /\ codec_decode ce bytes = Ok (text_of m).
Proof. exact text_decodes. Qed.

(* decoding direction: specification PDUs, including shapes the library never emits *)
Theorem C04_smresp_decode :
  forall default cmd seq st (mid : option (list Z)),
  (cmd =? SmppCommand_SUBMIT_SM_RESP) || (cmd =? SmppCommand_DELIVER_SM_RESP) = true ->
  mem cmd SmppCommand_values = true -> mem st SmppCommandStatus_values = true -> u32r seq ->
  (forall s, mid = Some s -> ok_cstr s /\ (length s <= 64)%nat) ->
  let pdu := spec_pdu cmd st seq (match mid with Some s => spec_smresp_body s | None => [] end) in
  exists h, parse_header pdu = Ok h /\ decode default pdu h = Ok (MSmResp cmd seq st (match mid with Some s => s | None => [] end)).
Proof. exact smresp_decode_spec. Qed.

Theorem C04_bindresp_decode :
  forall default cmd seq st (body : option (list Z * option Z)),
  is_bind_resp cmd = true -> mem cmd SmppCommand_values = true -> mem st SmppCommandStatus_values = true -> u32r seq ->
  (forall s ver, body = Some (s, ver) -> ok_cstr s /\ (length s <= 15)%nat /\ forall v, ver = Some v -> 0 <= v <= 255) ->
  let pdu := spec_pdu cmd st seq (match body with Some (s, ver) => spec_bindresp_body s ver | None => [] end) in
  exists h, parse_header pdu = Ok h /\
    decode default pdu h = Ok (match body with Some (s, ver) => MBindResp cmd seq st s ver | None => MBindResp cmd seq st [] None end).
Proof. exact bindresp_decode_spec. Qed.

Theorem C04_bind_decode :
  forall default cmd bd,
  is_bind cmd = true -> mem cmd SmppCommand_values = true -> wf_bind bd -> u32r (b_seq bd) ->
  let pdu := spec_pdu cmd 0 (b_seq bd)
               (spec_bind_body (b_system_id bd) (b_password bd) (b_system_type bd) (b_iface bd) (b_ton bd) (b_npi bd) (b_range bd)) in
  exists h, parse_header pdu = Ok h /\ decode default pdu h = Ok (MBind cmd bd).
Proof. exact bind_decode_spec. Qed.

(* a specification submit_sm / deliver_sm: mandatory fields of any admissible value, short_message of any length up to 255,
   ANY number of optional parameters in ANY order (message_payload anywhere among them), any data_coding the library
   knows, any default alphabet: the decoder returns exactly the field values the PDU was built from; what each optional
   parameter means is tlvs_meaning (integers big-endian by their length, C-octet strings without their NUL, octet strings
   as they are, the flag parameter as True, message_payload decoded like short_message) *)
Theorem C04_sm_decode :
  forall default cmd seq f tl codec short opts0 opts payload sch val,
  (cmd =? SmppCommand_SUBMIT_SM) || (cmd =? SmppCommand_DELIVER_SM) = true ->
  mem cmd SmppCommand_values = true -> u32r seq ->
  wf_wire f -> w_tlvs f = tlv_area tl -> Forall wf_tlv tl ->
  16 + Z.of_nat (length (spec_sm_body f)) <= 4294967295 ->
  enc_of_data_coding (w_dc f) default = Ok codec ->
  decode_message (w_esm f) codec (w_sm f) = Ok (short, opts0) ->
  tlvs_meaning (w_esm f) codec tl opts0 [] = Ok (opts, payload) ->
  smpp_to_time (w_sched f) = Ok sch -> smpp_to_time (w_valid f) = Ok val ->
  (short = [] \/ payload = []) ->
  let pdu := spec_pdu cmd 0 seq (spec_sm_body f) in
  exists h, parse_header pdu = Ok h /\ decode default pdu h = Ok (MSm cmd (sm_of seq f default codec short payload opts sch val)).
Proof. exact sm_decode_spec. Qed.

(* the optional-parameter loop on its own *)
Theorem C04_tlv_loop :
  forall esm codec pdu tl fuel index acc payload,
  Forall wf_tlv tl -> (length tl < fuel)%nat ->
  skipn index pdu = tlv_area tl -> length pdu = (index + length (tlv_area tl))%nat ->
  parse_tlvs fuel esm codec pdu (length pdu) index acc payload = tlvs_meaning esm codec tl acc payload.
Proof. exact parse_tlvs_meaning. Qed.

(* the User Data Header is a sequence of information elements in ANY order (3GPP TS 23.040 9.2.3.24): the concatenation element -
   8-bit or 16-bit reference - is read wherever it stands among ANY number of other elements (application port addressing, ...),
   and a header WITHOUT concatenation element yields the text and no segmentation parameters (the message is not a segment).
   Fix: the pinned code took whatever element came first for the concatenation element *)
Theorem C04_udh_any_order :
  (forall esm codec pre post ref total seq body (wide : bool),
     0 < (esm / 64) mod 2 -> Forall other_ie pre -> Forall other_ie post -> 0 <= ref <= (if wide then 65535 else 255) ->
     decode_message esm codec (udh_of (pre ++ [if wide then concat_ie16 ref total seq else concat_ie8 ref total seq] ++ post) ++ body)
     = (do t <- codec_decode codec body; Ok (t, sar_of ref total seq)))
  /\ (forall esm codec ies body,
        0 < (esm / 64) mod 2 -> Forall other_ie ies ->
        decode_message esm codec (udh_of ies ++ body) = (do t <- codec_decode codec body; Ok (t, []))).
Proof. split; [exact udh_concatenation_anywhere | exact udh_without_concatenation]. Qed.

(* user data headers with an 8-bit and a 16-bit concatenation reference *)
Theorem C04_udh_decode :
  forall esm codec ref total seq body,
  0 < (esm / 64) mod 2 ->
  (0 <= ref <= 255 ->
   decode_message esm codec (udh_concat8 ref total seq ++ body) = (do t <- codec_decode codec body; Ok (t, sar_of ref total seq)))
  /\ (0 <= ref <= 65535 ->
      decode_message esm codec (udh_concat16 ref total seq ++ body) = (do t <- codec_decode codec body; Ok (t, sar_of ref total seq))).
Proof. exact udh_decode. Qed.

Example C04_nonvacuous :
  In (524, (KInt, 2)) spec_tlv_table /\ In (30, (KCStr, 0)) spec_tlv_table /\ In (4876, (KFlag, 0)) spec_tlv_table
  /\ op_tlv {| op_tag := 524; op_val := TInt 513 |} = Ok [2; 12; 0; 2; 2; 1]
  /\ (exists b, encode EncGsm (MBindResp SmppCommand_BIND_TRANSCEIVER_RESP 1 0 [83] (Some 52)) = Ok b
                /\ b = spec_pdu CMD_BIND_TRANSCEIVER_RESP 0 1 (spec_bindresp_body [83] (Some 52))).
Proof.
  split; [cbn; tauto|]. split; [cbn; tauto|]. split; [cbn; tauto|]. split; [vm_compute; reflexivity|].
  eexists. split; vm_compute; reflexivity.
Qed.
