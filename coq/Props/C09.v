(* C09 - inbound segmented messages reassemble correctly for any arrival order. *)
From Coq Require Import ZArith QArith List Bool.
Import ListNotations.
Require Import AV.Generated.ExnOrder AV.Model.Base AV.Model.PyDict AV.Model.Reassembly
               AV.Proofs.PyDictProofs AV.Proofs.ReassemblyProofs.
Open Scope Z_scope.

(* For any family of messages with pairwise distinct references, each cut into at least two
   segments (any number: no bound), and ANY arrival order and interleaving in which no segment
   arrives twice: the k-th arrival returns the complete text - the segment texts concatenated in
   numeric sequence order - exactly when it is the last missing segment of its message, returns
   nothing (the placeholder) otherwise, and never fails. Hence one delivery per message, never a
   partial text. *)
Theorem C09_reassembly_any_order :
  forall fam arr,
  wf_family fam -> Forall (belongs fam) arr -> distinct arr ->
  forall k a, nth_error arr k = Some a -> forall parts, In (a_ref a, parts) fam ->
  nth_error (reassemble [] arr) k =
  Some (Ok (if Nat.eqb (length (arrived (a_ref a) (firstn (S k) arr))) (length parts) then Some (concat parts) else None)).
Proof. exact reassembly_any_order. Qed.

(* joining is by numeric order of the sequence numbers, whatever order they were collected in *)
Theorem C09_join_in_numeric_order :
  forall (d : dict text) parts,
  NoDup (map fst d) -> incl d (numbered 1 parts) -> length d = length parts -> join_parts d = concat parts.
Proof. exact join_complete. Qed.

(* History: once every message of which a segment has arrived is complete, the delivery segment store
   is empty again (nothing accumulates, whatever the number of messages and the arrival order) ... *)
Theorem C09_store_empty_when_complete :
  forall fam arr,
  wf_family fam -> Forall (belongs fam) arr -> distinct arr -> complete fam arr -> final_store [] arr = [].
Proof. exact store_empty_when_complete. Qed.

(* ... so ANY later stream - in particular later messages that use the same reference numbers again, as
   an 8-bit reference must after 256 messages - is treated exactly as by a fresh correlator, and
   C09_reassembly_any_order applies to it on its own. *)
Theorem C09_reference_free_after_completion :
  forall fam arr later,
  wf_family fam -> Forall (belongs fam) arr -> distinct arr -> complete fam arr ->
  reassemble [] (arr ++ later) = reassemble [] arr ++ reassemble [] later.
Proof. exact reference_free_after_completion. Qed.

(* non-vacuity of the two: reference 7 used by a 2-segment message and then again by a 3-segment one *)
Example C09_reuse_nonvacuous :
  ser_reassemble ([(7, 2, 2, [20]); (7, 1, 2, [10])] ++ [(7, 3, 3, [3]); (7, 1, 3, [1]); (7, 2, 3, [2])])
  = [0; 1; 2; 10; 20] ++ [0; 0; 1; 3; 1; 2; 3]
  /\ final_store [] [(7, 2, 2, [20]); (7, 1, 2, [10])] = []
  /\ complete [(7, [[10]; [20]])] [(7, 2, 2, [20]); (7, 1, 2, [10])].
Proof.
  split; [vm_compute; reflexivity|]. split; [vm_compute; reflexivity|].
  intros r. destruct (Z.eq_dec r 7) as [->|Hn].
  - right. exists [[10]; [20]]. split; [left; reflexivity|reflexivity].
  - left. unfold arrived. cbn [filter a_ref fst snd]. apply Z.eqb_neq in Hn. rewrite Z.eqb_sym, Hn. reflexivity.
Qed.

(* non-vacuity: 12 segments arriving in reverse, interleaved with a 2-segment message *)
Example C09_nonvacuous :
  let parts := map (fun i => [i]) [1; 2; 3; 4; 5; 6; 7; 8; 9; 10; 11; 12] in
  ser_reassemble ([(7, 12, 12, [12]); (7, 11, 12, [11]); (9, 2, 2, [200]); (7, 10, 12, [10]); (7, 9, 12, [9]); (7, 8, 12, [8]);
                   (7, 7, 12, [7]); (7, 6, 12, [6]); (9, 1, 2, [100]); (7, 5, 12, [5]); (7, 4, 12, [4]); (7, 3, 12, [3]);
                   (7, 2, 12, [2]); (7, 1, 12, [1])])
  = [0; 0; 0; 0; 0; 0; 0; 0; 1; 2; 100; 200; 0; 0; 0; 0; 1; 12; 1; 2; 3; 4; 5; 6; 7; 8; 9; 10; 11; 12].
Proof. vm_compute. reflexivity. Qed.
