(* C18 - rate limiter and throttle handler bound the send rate without starving it. *)
From Coq Require Import ZArith QArith List Bool Lia.
Import ListNotations.
Require Import AV.Generated.ExnOrder AV.Model.Base AV.Model.Limiter AV.Proofs.LimiterProofs.
Open Scope Q_scope.

(* for every rate r > 0 (also below 1/s), every non-decreasing clock (`increasing` allows equal readings: a coarse clock may return the
   same value twice) and every window [a, a+T]: the clock readings inside the window let at most r*T + r + 1 messages through,
   whatever happened before; and the limiter never raises *)
Theorem C18_limiter_window :
  forall rate t0 before inside a T,
  0 < rate -> 0 <= T -> increasing t0 (before ++ inside) -> Forall (fun x => a <= x <= a + T) inside ->
  exists s1 ps1 s2 ps2,
    lim_run (lim_init rate t0) before = Ok (s1, ps1)
    /\ lim_run (lim_init rate t0) (before ++ inside) = Ok (s2, ps1 ++ ps2)
    /\ inject_Z (count_true ps2) <= rate * T + rate + 1.
Proof. exact limiter_window. Qed.

(* a waiting message is let through: once more than 1/r seconds have passed since the bucket was
   last credited it passes; with one-second sleeps, k sleeps with k*r > 1 (k = floor(1/r)+1) suffice *)
Theorem C18_limiter_liveness :
  forall s t0 sleeps,
  wf s -> l_upd s < t0 -> spaced t0 sleeps -> sleeps <> [] ->
  1 < inject_Z (Z.of_nat (length sleeps)) * l_rate s ->
  exists s' ps, lim_run s (t0 :: sleeps) = Ok (s', ps) /\ existsb (fun p : bool => p) ps = true.
Proof. exact limiter_liveness_sleeps. Qed.

Theorem C18_limiter_invariant :
  (forall rate now, 0 < rate -> wf (lim_init rate now))
  /\ (forall l s, wf s -> increasing (l_upd s) l ->
        exists s' ps, lim_run s l = Ok (s', ps) /\ wf s' /\ l_rate s' = l_rate s
                      /\ l_upd s' <= last l (l_upd s) /\ l_upd s <= l_upd s').
Proof. split; [exact wf_init | exact run_prefix]. Qed.

(* throttle handler, state-wise: denied iff at least sample_size responses were counted since the window restarted and MORE than
   deny_request_at percent of them were throttled - decided on the exact share (throttled * 100 > deny_request_at * total), no rounding;
   the window restarts at the first call later than sampling_period after the previous restart *)
Theorem C18_throttle_decision :
  forall s now s' b,
  allow_request s now = Ok (s', b) ->
  (b = false <-> (t_sample s <= inject_Z (t_non s + t_thr s) /\ (t_non s + t_thr s <> 0)%Z
                  /\ t_deny s * inject_Z (t_non s + t_thr s) < inject_Z (t_thr s * 100)))
  /\ (s' = if qlt (t_period s) (now - t_upd s)
           then {| t_non := 0; t_thr := 0; t_upd := now; t_period := t_period s; t_sample := t_sample s; t_deny := t_deny s |}
           else s).
Proof. exact throttle_decision. Qed.

(* the case the two-decimal rounding used to get wrong: 3 throttled of 299 responses are 1.0033 % - more than 1 % *)
Example C18_exact_share :
  ser_thr_run 180 5 1 0 (repeat TNot 296 ++ [TThrottled; TThrottled; TThrottled; TAllow 1]) = [0]%Z
  /\ ser_thr_run 180 5 1 0 (repeat TNot 297 ++ [TThrottled; TThrottled; TThrottled; TAllow 1]) = [1]%Z.
Proof. split; vm_compute; reflexivity. Qed.

Example C18_nonvacuous :
  ser_lim_run (1 # 2) 0 [(1 # 1); (21 # 10); (22 # 10); (5 # 1)] = [0; 0; 1; 0; 1; -1; 0; 1; 5; 1]%Z
  /\ increasing 0 [(1 # 1); (21 # 10); (22 # 10); (5 # 1)]
  /\ ser_thr_run 20 5 20 0 [TNot; TNot; TNot; TThrottled; TAllow 1; TThrottled; TAllow 2; TAllow 23; TAllow 24] = [1; 0; 0; 1]%Z.
Proof. split; [vm_compute; reflexivity|]. split; [cbn; repeat split; unfold Qle; cbn; lia|vm_compute; reflexivity]. Qed.
