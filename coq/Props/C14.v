(* C14 - an unanswered submit times out exactly once, never early. The statements quantify over
   every interleaving of correlator calls by concurrent tasks (sender, receiver, keep-alive probes):
   a call is cut into its atomic pieces (begin; one sweep iteration per step, after which the task
   may be suspended in hook.send_error for any time; finish) and ANY sequence of such events is a run. *)
From Coq Require Import ZArith QArith List Bool.
Import ListNotations.
Require Import AV.Generated.ExnOrder AV.Generated.SmppConsts AV.Model.Base AV.Model.PyDict AV.Model.Limiter
               AV.Model.Correlator AV.Model.Seq AV.Proofs.PyDictProofs AV.Proofs.CorrelatorProofs.

(* (a) never early: whenever an entry is expired, more than the TTL separates the clock reading of
   that sweep from the instant the entry was stored *)
Theorem C14_never_early :
  forall ttl evs x, In (OExpired x) (snd (grun (ginit ttl) evs)) -> (ttl < so_now x - e_at (so_entry x))%Q.
Proof. exact never_early. Qed.

(* (b),(c) at most once, and never both: over a whole run, the entries that were expired and the
   entries that were handed to a response are pairwise distinct - no entry times out twice (also when
   a send_error hook suspends and another task sweeps meanwhile), an answered message is never
   reported as timed out, and a timed-out message is never matched by a late response *)
Theorem C14_expire_or_answer_once :
  forall ttl evs, let os := snd (grun (ginit ttl) evs) in NoDup (expired_ids os ++ got_ids os).
Proof. exact expire_or_answer_once. Qed.

(* an expiring plain SubmitSm is handed to send_error as itself *)
Theorem C14_plain_expiry_reports_message :
  forall c sw c' sw' o,
  sweep_step c sw = (c', sw', Some o) ->
  is_submit (e_msg (so_entry o)) = true -> dget (sm_seq (e_msg (so_entry o))) (c_seg c) = None ->
  so_call o = Some (e_msg (so_entry o)).
Proof. exact plain_expiry_reports_message. Qed.

(* (b) no later than the first request sent after the TTL elapsed: every call (put for a request the
   ESME sends, keep-alive probes included) sweeps all entries present when it begins ... *)
Theorem C14_every_call_sweeps_everything :
  forall ttl g EX GOT t o now,
  GI ttl g EX GOT -> dget t (g_calls g) = None ->
  let g' := fst (gstep g (CBegin t o now)) in
  exists k, In (t, k) (g_calls g') /\ k_bound k = g_next g' /\ sw_now (k_sweep k) = now
            /\ forall key e, In (key, e) (c_store (g_corr g')) -> In key (sw_keys (k_sweep k)).
Proof. exact begin_covers_store. Qed.

(* ... and when its sweep has visited its keys - before the call completes - no entry that was overdue
   at the sweep's clock reading is left: each was expired (exactly once, by this or another task) or
   answered *)
Theorem C14_sweep_leaves_nothing_overdue :
  forall ttl evs t k key e,
  let g := fst (grun (ginit ttl) evs) in
  In (t, k) (g_calls g) -> sw_keys (k_sweep k) = [] ->
  In (key, e) (c_store (g_corr g)) -> e_id e < k_bound k ->
  ~ (ttl < sw_now (k_sweep k) - e_at e)%Q.
Proof. exact sweep_leaves_nothing_overdue. Qed.

Theorem C14_invariant_reachable :
  forall ttl evs, let '(g, os) := grun (ginit ttl) evs in GI ttl g (expired_ids os ++ []) (got_ids os ++ []).
Proof.
  intros ttl evs. pose proof (grun_GI ttl evs (ginit ttl) [] [] (GI_init ttl)) as H.
  destruct (grun (ginit ttl) evs) as [g os]. exact (proj1 H).
Qed.

(* (d), the correlator's part: put() stores the request in its first atomic piece, before its sweep - which may suspend in the
   application's send_error hook - has run; a response processed during that suspension finds the request (fix of the
   defect "response during the sweep of put()") *)
Theorem C14_put_visible_at_once :
  forall g t m now, dget t (g_calls g) = None ->
  dget (sm_seq m) (c_store (g_corr (fst (gstep g (CBegin t (OpPut m) now)))))
  = Some {| e_at := now; e_msg := m; e_id := g_next g |}.
Proof. exact put_visible_at_once. Qed.

(* (d) REFUTED for the session as a whole (known finding response-before-put-under-backpressure): in the
   model of _send_data / _handle_response (Model/Seq.v) the number is assigned and the PDU written
   before correlator.put; a response processed in between is not attributed and the request stays
   stored, to be reported as timed out later. Witness: assign, response, put. *)
Theorem C14_response_before_put_refuted :
  ser_run 1 2147483647 0 [EAssign 4; EResp 2147483652 1; EPut 0] = [-1; 1; 0]%Z.
Proof. vm_compute. reflexivity. Qed.

(* non-vacuity: two tasks; the first sweep suspends in the hook after expiring message 10, the second
   task's put runs meanwhile and does not expire it again; a late response finds nothing *)
Example C14_nonvacuous :
  let m10 := {| sm_uid := 10; sm_cmd := 4; sm_seq := 1; sm_log := 10; sm_sar := (0, 0, 0)%Z |} in
  let m11 := {| sm_uid := 11; sm_cmd := 21; sm_seq := 2; sm_log := 0; sm_sar := (0, 0, 0)%Z |} in
  let m12 := {| sm_uid := 12; sm_cmd := 21; sm_seq := 3; sm_log := 0; sm_sar := (0, 0, 0)%Z |} in
  ser_mrun_obs 1 [MBegin 1 (OpPut m10) 0 0; MBegin 1 (OpPut m11) 5 5; MBegin 2 (OpPut m12) 5 5;
                  MBegin 3 (OpGet {| rs_uid := 0; rs_cmd := 2147483652; rs_seq := 1; rs_status := 0 |}) 6 6; MResume 1 7]
  = [10; -6; -1; -7; 2; 11; 3; 12; -8; -9]%Z.
Proof. vm_compute. reflexivity. Qed.
