(* C19 - persisted correlation data survives restarts and crashes during writes.
   Model/Persist.v is tied to correlator.py by harness/C19.py: the I/O primitives of the real _save, the dictionary-level
   traces of every SimpleCorrelator call, the file contents and the reloaded stores are compared with the model. *)
From Coq Require Import ZArith List Bool String.
Import ListNotations.
Require Import AV.Generated.ExnOrder AV.Generated.SmppConsts AV.Model.Base AV.Model.TimeFmt AV.Model.Pdu AV.Model.Json AV.Model.Persist
               AV.Proofs.JsonProofs AV.Proofs.PersistProofs.
Open Scope Z_scope.

(* crash at every point of a write (before it, after the temporary file is created, after each partial write, after the
   close, after the rename), for any content, any previous content, any leftover temporary file and any parser:
   the file loads as the state before or as the state after *)
Theorem C19_crash_atomic :
  forall (D : Type) (parse : list Z -> option D) (empty : D) s content s',
  crash_state s content s' ->
  load D parse empty s' = load D parse empty s \/ load D parse empty s' = load D parse empty (run_io s (save_ops content)).
Proof. exact crash_atomic. Qed.

Theorem C19_save_result :
  forall s content, f_main (run_io s (save_ops content)) = Some content /\ f_tmp (run_io s (save_ops content)) = None.
Proof. exact save_result. Qed.

(* what the theorem rules out: truncating in place (the code before fix 0dd80e4) has a crash point that loads as neither *)
Theorem C19_inplace_protocol_refuted :
  exists s content (parse : list Z -> option (list Z)) s',
    In s' (inplace_crash_states s content)
    /\ load _ parse [] s' <> load _ parse [] s
    /\ load _ parse [] s' <> load _ parse [] {| f_main := Some content; f_tmp := None |}.
Proof. exact inplace_protocol_refuted. Qed.

(* write-through: after any sequence of dictionary operations in which every in-place update of a stored object is
   followed by an assignment, the file holds exactly the dictionary - whatever the operations, keys and values *)
Theorem C19_write_through :
  forall (V : Type) tr (d : pdict V), trace_ok V tr = true -> synced V d -> synced V (run_prims V d tr).
Proof. exact trace_synced. Qed.

(* the same with deletions counted: a deletion or pop of an existing key also writes the whole dictionary *)
Theorem C19_write_through_stateful :
  forall (V : Type) tr (d : pdict V) dirty,
  (dirty = false -> synced V d) -> dirty_after V (pd_data d) dirty tr = false -> synced V (run_prims V d tr).
Proof. exact dirty_sound. Qed.

(* restart: the saved form of every store (request, segment, segment-status with nested messages, delivery,
   delivery-segment) is revived by a new instance to exactly the store that was saved, for any number of entries *)
Theorem C19_restart :
  forall (s : store) o, Forall (fun kv => wf_sval (snd kv)) s -> store_json s = Ok o -> load_store (Some (JObj o)) = s.
Proof. exact store_roundtrip. Qed.

Example C19_nonvacuous :
  let m := {| m_cmd := SmppCommand_GENERIC_NACK;
              m_fields := [("sequence_num"%string, VInt 7); ("command_status"%string, VInt 3);
                           ("log_id"%string, VStr [76; 49]); ("extra_data"%string, VStr [69])] |} in
  wf_sval (SStamped 5 m) /\ wf_sval (SSegStat [("1"%string, 65535)] m None (Some m))
  /\ (exists o, store_json [("id1"%string, SStamped 5 m); ("7"%string, SSegStat [("1"%string, 65535)] m None (Some m))] = Ok o)
  /\ crash_state {| f_main := Some [1]; f_tmp := None |} [2; 3] (run_io {| f_main := Some [1]; f_tmp := None |} [IoOpenTmp; IoWrite [2]])
  /\ trace_ok Z [PMutate 1 5; PSet 1 5; PDel 2] = true.
Proof.
  assert (wf {| m_cmd := SmppCommand_GENERIC_NACK;
              m_fields := [("sequence_num"%string, VInt 7); ("command_status"%string, VInt 3);
                           ("log_id"%string, VStr [76; 49]); ("extra_data"%string, VStr [69])] |}) as Hw.
  { eexists _, _. split; [vm_compute; reflexivity|].
    repeat (constructor; [split; [reflexivity|cbn; try exact I; try (vm_compute; reflexivity)]|]). constructor. }
  cbv zeta. split; [exact Hw|]. split; [cbn; auto|]. split; [eexists; vm_compute; reflexivity|].
  split; [apply (CrashTorn _ [2; 3] [2] [3]); reflexivity|reflexivity].
Qed.
