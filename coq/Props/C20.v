(* C20 - delivery-receipt text parses back to the data it was built from. *)
From Coq Require Import ZArith List Bool.
Import ListNotations.
Require Import AV.Generated.ExnOrder AV.Model.Base AV.Model.TimeFmt AV.Model.Receipt
               AV.Proofs.TimeProofs AV.Proofs.ReceiptProofs.
Open Scope Z_scope.

(* encode_receipt is the eight-field text with the library's own field names *)
Theorem C20_builder_shape :
  forall r, encode_receipt r =
            encode_with k_id k_sub k_dlvrd k_submit_date k_done_date k_stat k_err [84; 101; 120; 116] r.
Proof. exact encode_receipt_is_encode_with. Qed.

(* parsing the text built from a receipt returns the receipt: for ANY casing of the eight field
   names, any id/stat without spaces (colons allowed), counts and err in 0..999, dates 1969-2068 to
   the minute, any text (spaces, colons, empty; padded to 20); the id comes from the
   receipted_message_id parameter exactly when the text carries none *)
Theorem C20_roundtrip :
  forall n1 n2 n3 n4 n5 n6 n7 n8 r esm tlv,
  lower n1 = k_id -> lower n2 = k_sub -> lower n3 = k_dlvrd -> lower n4 = k_submit_date ->
  lower n5 = k_done_date -> lower n6 = k_stat -> lower n7 = k_err -> lower n8 = k_text ->
  wf_receipt r -> is_receipt esm = true ->
  parse_receipt esm (encode_with n1 n2 n3 n4 n5 n6 n7 n8 r) tlv =
  Ok (expected_dict r (match r_id r, tlv with [], Some v => v | i, _ => i end)).
Proof. exact receipt_roundtrip. Qed.

Theorem C20_text_up_to_padding : forall s, exists k, pad20 s = s ++ repeat 32 k.
Proof. exact pad20_strip. Qed.

(* fields the library does not know are kept as strings under the lower-cased name *)
Theorem C20_unknown_fields_kept :
  forall f name v rest acc,
  ~ In 58 name -> ~ In 32 v ->
  list_eqb (lower name) k_text = false ->
  list_eqb (lower name) k_sub || list_eqb (lower name) k_dlvrd || list_eqb (lower name) k_err
  || list_eqb (lower name) k_submit_date || list_eqb (lower name) k_done_date = false ->
  scan (S f) (name ++ 58 :: v ++ 32 :: rest) acc = scan f rest (dset acc (lower name) (VStr v)).
Proof. exact unknown_field_kept. Qed.

(* a DeliverSm that is not a receipt parses to the empty dictionary *)
Theorem C20_non_receipt_empty :
  forall esm text tlv, is_receipt esm = false -> parse_receipt esm text tlv = Ok [].
Proof. exact non_receipt_is_empty. Qed.

(* dates: strptime('%y%m%d%H%M') with its backtracking alternatives reads back what strftime printed *)
Theorem C20_dates :
  forall y mo d h mi, valid_minute_date y mo d h mi -> strptime (date_str y mo d h mi) = Ok (VDate y mo d h mi).
Proof. exact strptime_date_str. Qed.

Example C20_nonvacuous :
  let r := {| r_id := [65; 52]; r_sub := 1; r_dlvrd := 1; r_sdate := Some (2024, 2, 29, 23, 59);
              r_ddate := Some (1999, 12, 31, 0, 0); r_stat := [68; 69; 76; 73; 86; 82; 68]; r_err := 7;
              r_text := [104; 105; 32; 97; 58; 98] |} in
  parse_receipt 4 (encode_receipt r) None =
  Ok [(k_id, VStr [65; 52]); (k_sub, VInt 1); (k_dlvrd, VInt 1); (k_submit_date, VDate 2024 2 29 23 59);
      (k_done_date, VDate 1999 12 31 0 0); (k_stat, VStr [68; 69; 76; 73; 86; 82; 68]); (k_err, VInt 7);
      (k_text, VStr (pad20 [104; 105; 32; 97; 58; 98]))]
  /\ lower [83; 85; 66; 109; 73; 116; 32; 68; 65; 84; 69] = k_submit_date
  /\ is_receipt 4 = true /\ is_receipt 0 = false.
Proof. vm_compute. repeat split; reflexivity. Qed.
