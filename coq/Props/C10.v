(* C10 - GSM 03.38 codec is an exact bijection on its alphabet with defined error modes.
   Statements only; each closed by `exact <lemma>`; Print Assumptions is run by ./check. *)
From Coq Require Import ZArith List Bool.
Import ListNotations.
Require Import AV.Generated.GsmTables AV.Generated.ExnOrder AV.Model.Base AV.Model.Codec
               AV.Spec.Gsm0338 AV.Proofs.CodecProofs.
Open Scope Z_scope.

(* the generated tables of codec.py are the 3GPP TS 23.038 tables *)
Theorem C10_tables_are_3gpp :
  same_table gsm_basic_decode_map spec_basic = true
  /\ same_table gsm_extended_decode_map spec_extension = true
  /\ ESCAPE = spec_escape.
Proof. exact tables_are_3gpp. Qed.

(* round trip, for every string over the alphabet, in every encoder and decoder error mode *)
Theorem C10_roundtrip :
  forall s, is_gsm_text s = true ->
  forall m, exists b, gsm_encode m s = Ok b /\ forall m', gsm_decode m' b = Ok s.
Proof. exact gsm_roundtrip. Qed.

Theorem C10_membership :
  forall s, is_gsm_text s = true <-> Forall (fun c => in_alphabet c = true) s.
Proof. exact is_gsm_text_iff. Qed.

(* one octet per basic character, two (escape first) per extension character *)
Theorem C10_cost :
  (forall s codes, to_gsm_codes Strict s = Some codes -> Z.of_nat (length codes) = text_cost s)
  /\ (forall c code, lookup c gsm_basic_encode_map = None -> lookup c gsm_extended_encode_map = Some code ->
      forall m, to_gsm_codes m [c] = Some [ESCAPE; code]).
Proof. split; [exact strict_length | exact ext_char_shape]. Qed.

(* per-character homomorphism: the encoding of a string is the concatenation of the
   encodings of its characters, in every mode *)
Theorem C10_homomorphism :
  forall m s, to_gsm_codes m s = concat_opt (map (enc_char_mode m) s).
Proof. exact to_gsm_codes_homomorphism. Qed.

Theorem C10_strict_rejects :
  forall s, gsm_encode Strict s = Err EXN_UnicodeEncodeError <-> exists c, In c s /\ in_alphabet c = false.
Proof. exact gsm_encode_strict_rejects. Qed.

Theorem C10_ignore_drops :
  (forall s, to_gsm_codes Ignore s = to_gsm_codes Strict (filter in_alphabet s)
             /\ exists codes, to_gsm_codes Ignore s = Some codes)
  /\ (forall a c b ea eb, in_alphabet c = false ->
        to_gsm_codes Ignore a = Some ea -> to_gsm_codes Ignore b = Some eb ->
        to_gsm_codes Ignore (a ++ [c] ++ b) = Some (ea ++ eb)).
Proof. split; [exact ignore_is_filter | exact ignore_local]. Qed.

Theorem C10_replace_substitutes_one :
  (forall s, exists codes, to_gsm_codes Replace s = Some codes)
  /\ (forall a c b ea eb, in_alphabet c = false ->
        to_gsm_codes Replace a = Some ea -> to_gsm_codes Replace b = Some eb ->
        to_gsm_codes Replace (a ++ [c] ++ b) = Some (ea ++ [sub_char c] ++ eb)).
Proof. split; [exact replace_always_succeeds | exact replace_local]. Qed.

Theorem C10_encode_never_struct_error : forall m s, gsm_encode m s <> Err EXN_StructError.
Proof. exact gsm_encode_never_struct_error. Qed.

(* decoder, every octet value, both states *)
Theorem C10_decoder_high_octets :
  forall m b rest, 128 <= b ->
  gsm_decode_loop m (b :: rest) false =
  match m with
  | Strict => Err EXN_UnicodeDecodeError
  | Replace => rmap (cons QUESTION_MARK) (gsm_decode_loop m rest false)
  | Ignore => gsm_decode_loop m rest false
  end.
Proof. exact decode_step_high. Qed.

Theorem C10_decoder_unmapped :
  forall m b rest, b <> ESCAPE -> lookup b gsm_basic_decode_map = None ->
  gsm_decode_loop m (b :: rest) false =
  match m with
  | Strict => Err EXN_UnicodeDecodeError
  | Replace => rmap (cons QUESTION_MARK) (gsm_decode_loop m rest false)
  | Ignore => gsm_decode_loop m rest false
  end.
Proof. exact decode_step_unmapped. Qed.

(* an escape followed by ANY code without extension entry yields a single placeholder - octets above 0x7F and the escape code itself
   included (3GPP TS 23.038: 1B 1B is reserved for another extension table, display a space) *)
Theorem C10_decoder_escape_without_entry :
  (forall m x rest, lookup x gsm_extended_decode_map = None ->
     gsm_decode_loop m (x :: rest) true = rmap (cons NO_BREAK_SPACE) (gsm_decode_loop m rest false))
  /\ lookup ESCAPE gsm_extended_decode_map = None.
Proof. split; [exact decode_step_ext_unmapped | exact escape_has_no_extension_entry]. Qed.

Theorem C10_decoder_trailing_escape :
  forall m, gsm_decode_loop m [] true =
  match m with Strict => Err EXN_UnicodeDecodeError | Replace => Ok [NO_BREAK_SPACE] | Ignore => Ok [] end.
Proof. exact decode_trailing_escape. Qed.

Theorem C10_decoder_mapped :
  (forall m b c rest, b <> ESCAPE -> lookup b gsm_basic_decode_map = Some c ->
     gsm_decode_loop m (b :: rest) false = rmap (cons c) (gsm_decode_loop m rest false))
  /\ (forall m x c rest, lookup x gsm_extended_decode_map = Some c ->
     gsm_decode_loop m (x :: rest) true = rmap (cons c) (gsm_decode_loop m rest false))
  /\ (forall m rest, gsm_decode_loop m (ESCAPE :: rest) false = gsm_decode_loop m rest true).
Proof. split; [exact decode_step_basic | split; [exact decode_step_ext | exact decode_step_escape]]. Qed.

(* non-vacuity: a string mixing basic and extension characters meets the hypotheses *)
Example C10_nonvacuous :
  is_gsm_text [72; 8364; 123; 64; 916] = true
  /\ gsm_encode Strict [72; 8364; 123; 64; 916] = Ok [72; 27; 101; 27; 40; 0; 16]
  /\ gsm_decode Strict [72; 27; 101; 27; 40; 0; 16] = Ok [72; 8364; 123; 64; 916]
  /\ in_alphabet 231 = false /\ sub_char 231 = 9 /\ sub_char 20320 = 63.
Proof. vm_compute. repeat split; reflexivity. Qed.
