(* C07 - runs until stopped: reconnects after any failure with back-off, stops cleanly.
   Model/Lifecycle.v is tied to esme.py/retrytimer.py by harness/C07.py: fault scripts and stop() times are played against the
   real ESME.start() on a virtual-time loop; the delays slept by the retry timer, the way each cycle ended and the way
   start() ended are compared with the model.  The except clauses of start()/_end_task are generated from esme.py. *)
From Coq Require Import ZArith List Bool.
Import ListNotations.
From Coq Require Import Lia.
Require Import AV.Generated.ExnOrder AV.Generated.Handled AV.Model.Base AV.Model.Recv AV.Model.Lifecycle AV.Proofs.LifecycleProofs.
Open Scope Z_scope.

(* refused/reset connections, time-outs, bind rejections, EOF, OS errors, unusable headers: every such class, raised by
   connect() or by a session task, is caught by the connect cycle *)
Theorem C07_faults_are_caught : forall e, is_fault e = true -> start_catches e = true.
Proof. exact faults_caught. Qed.

(* any sequence of faulty cycles, of any length, without stop(): start() is still running *)
Theorem C07_faults_never_end_start :
  forall cs t,
  forallb (fun x => fault_cycle (fst (fst x)) && negb (snd (fst x)) && negb (snd x)) cs = true ->
  snd (run t cs) = Running.
Proof. exact faults_never_end_start. Qed.

(* start() returns only when the shutting-down flag is seen, and once it is seen no further connect attempt is made *)
Theorem C07_returns_only_after_stop :
  forall cs t ds, run t cs = (ds, Returned) -> existsb (fun x => snd (fst x) || snd x) cs = true.
Proof. exact returns_only_after_stop. Qed.

Theorem C07_stop_seen_no_new_attempt :
  forall c s2 rest t, cycle_escape c = None -> run t ((c, true, s2) :: rest) = ([], Returned).
Proof. exact stop_seen_no_new_attempt. Qed.

(* back-off, for any minimum and any number of increases: the k-th wait after a reset sleeps 0, min, 2 min, 4 min, ...
   capped at min * 2^max_increases *)
Theorem C07_backoff_sequence :
  forall t n, timer_ok t n -> t_next t = 0 ->
  forall k, (1 <= k)%nat ->
  let r := waits t k in
  nth (k - 1) (fst r) (-1) = kth_delay t (Z.of_nat k)
  /\ t_min (snd r) = t_min t /\ t_max (snd r) = t_max t
  /\ t_next (snd r) = Z.min (t_min t * 2 ^ (Z.of_nat k - 1)) (t_max t).
Proof. exact backoff_sequence. Qed.

(* it starts at no more than the minimum, never exceeds the cap, and doubles up to the cap *)
Theorem C07_backoff_bounds :
  forall t n, timer_ok t n -> forall k, 1 <= k ->
  0 <= kth_delay t k <= t_max t
  /\ kth_delay t 1 <= t_min t
  /\ (2 <= k -> kth_delay t (k + 1) = Z.min (2 * kth_delay t k) (t_max t)).
Proof. exact backoff_bounds. Qed.

(* the loop sleeps exactly those delays during a streak of failures, and starts over after a successful bind *)
Theorem C07_loop_uses_backoff :
  (forall cs t,
     forallb (fun x => match fst (fst x) with CFailed e => is_fault e | CBound _ => false end && negb (snd (fst x)) && negb (snd x)) cs = true ->
     fst (run t cs) = fst (waits t (length cs)))
  /\ (forall ended rest t,
        cycle_escape (CBound ended) = None ->
        run t ((CBound ended, false, false) :: rest) =
          (0 :: fst (run {| t_min := t_min t; t_max := t_max t; t_next := t_min t |} rest),
           snd (run {| t_min := t_min t; t_max := t_max t; t_next := t_min t |} rest))).
Proof. split; [exact run_failure_streak | exact run_after_bound]. Qed.

Example C07_nonvacuous :
  timer_ok (t_init 1000 5) 5
  /\ ser_run 1000 5 [(CFailed EXN_ConnectionError, false, false); (CFailed EXN_TimeoutError, false, false); (CFailed EXN_SmppError, false, false);
                     (CBound [Some EXN_IncompleteReadError; None; None], false, false); (CFailed EXN_ConnectionError, false, true)]
     = [5; 0; 1000; 2000; 0; 1000; 1]
  /\ snd (run (t_init 1000 5) [(CBound [Some EXN_KeyError], false, false)]) = Raised EXN_KeyError.
Proof. split; [unfold timer_ok, t_init; cbn; lia|]. split; vm_compute; reflexivity. Qed.
