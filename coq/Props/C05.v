(* C05 - nothing the SMSC sends can stop the session or go unanswered.
   Model/Recv.v (with Model/Pdu.v and Model/Receipt.v) is tied to esme.py/protocol.py by harness/C05.py, which feeds byte
   streams to the real ESME.start() and compares what it writes, how many PDUs it handles and how the Receiver task ends. *)
From Coq Require Import ZArith List Bool.
Import ListNotations.
Require Import AV.Generated.ExnOrder AV.Generated.SmppConsts AV.Generated.Handled
               AV.Model.Base AV.Model.Codec AV.Model.Split AV.Model.TimeFmt AV.Model.Receipt AV.Model.Pdu AV.Model.Recv
               AV.Spec.Smpp34 AV.Proofs.RecvProofs.
Open Scope Z_scope.

(* parsing ANY byte string with ANY header under ANY default alphabet ends normally or with ValueError (incl. UnicodeDecodeError),
   struct.error or KeyError - the classes the handlers catch; EXN_Unmodelled marks the stdlib codecs outside the model *)
Theorem C05_parse_errors_closed :
  forall default pdu h,
  match decode_request default pdu h with
  | Err e => e = EXN_Unmodelled \/ (request_parse_caught e = true /\ response_parse_caught e = true)
  | Ok _ => True
  end
  /\ match decode default pdu h with
     | Err e => e = EXN_Unmodelled \/ (request_parse_caught e = true /\ response_parse_caught e = true)
     | Ok _ => True
     end.
Proof.
  intros default pdu h. split.
  - pose proof (okerr_decode_request default pdu h) as H. destruct (decode_request default pdu h) as [m|e]; [exact I|].
    destruct (Z.eq_dec e EXN_Unmodelled) as [E|N]; [left; exact E|right; exact (parse_errors_caught e H N)].
  - pose proof (okerr_decode default pdu h) as H. destruct (decode default pdu h) as [m|e]; [exact I|].
    destruct (Z.eq_dec e EXN_Unmodelled) as [E|N]; [left; exact E|right; exact (parse_errors_caught e H N)].
Qed.

(* the reaction to a PDU never raises (inside the modelled fragment) *)
Theorem C05_reaction_never_raises :
  forall default pdu h e, rx_out (react default pdu h) = ORaise e -> e = EXN_Unmodelled.
Proof. exact react_raises_only_unmodelled. Qed.

(* exactly one answer per request, echoing the sequence number; responses are never answered *)
Theorem C05_one_answer :
  forall default pdu h,
  0 <= h_seq h <= 4294967295 ->
  (forall e, rx_out (react default pdu h) <> ORaise e) ->
  if is_request (h_cmd h)
  then exists rc, lookup (h_cmd h) command_response_map = Some rc /\
       (rx_sent (react default pdu h) = [spec_pdu CMD_GENERIC_NACK 3 (h_seq h) []] /\ rx_parsed (react default pdu h) = false
        \/ rx_sent (react default pdu h) = [spec_pdu CMD_GENERIC_NACK 8 (h_seq h) []] /\ rx_parsed (react default pdu h) = false
        \/ rx_sent (react default pdu h) = [spec_pdu rc 0 (h_seq h) (if rc =? CMD_DELIVER_SM_RESP then [0] else [])]
           /\ rx_parsed (react default pdu h) = true)
  else rx_sent (react default pdu h) = [].
Proof. exact one_answer. Qed.

(* for every byte stream of every length, with or without EOF: the Receiver task keeps waiting, returns (unbind), or ends
   with an exception that _end_task swallows or the connect cycle of start() catches - a reconnect at worst *)
Theorem C05_stream_never_stops_start :
  forall fuel default stream eof,
  let e := snd (run_stream fuel default stream eof) in start_survives e = true \/ e = ERaise EXN_Unmodelled.
Proof. exact stream_never_stops_start. Qed.

(* valid PDUs that follow an answered or ignored one are processed as if they had come first *)
Theorem C05_stream_continues :
  forall fuel default pdu h rest eof,
  (length pdu = Z.to_nat (h_len h))%nat -> (16 <= length pdu)%nat -> parse_header (firstn 16 pdu) = Ok h ->
  rx_out (react default pdu h) = OContinue ->
  run_stream (S fuel) default (pdu ++ rest) eof =
    (react default pdu h :: fst (run_stream fuel default rest eof), snd (run_stream fuel default rest eof)).
Proof. exact stream_continues. Qed.

(* KeyError is exactly what would escape: neither _end_task nor the connect cycle catches it *)
Example C05_what_would_escape :
  end_task_tolerates EXN_KeyError = false /\ start_catches EXN_KeyError = false
  /\ end_task_tolerates EXN_StructError = false /\ start_catches EXN_StructError = false
  /\ end_task_tolerates EXN_ValueError = true /\ end_task_tolerates EXN_IncompleteReadError = true.
Proof. vm_compute. repeat split; reflexivity. Qed.

Example C05_nonvacuous :
  (* a deliver_sm cut short: generic_nack(ESME_RSYSERR) with the same sequence number, and the loop goes on *)
  let pdu := [0;0;0;18; 0;0;0;5; 0;0;0;0; 0;0;0;77; 0; 1] in
  ser_stream_flat EncGsm pdu false = [1; 1; 16; 0;0;0;16; 128;0;0;0; 0;0;0;8; 0;0;0;77; 0; 1].
Proof. vm_compute. reflexivity. Qed.
