(* C11 - the packed GSM codec implements 3GPP TS 23.038 septet packing for every length and
   bit alignment. Statements only. *)
From Coq Require Import ZArith List Bool.
Import ListNotations.
Require Import AV.Generated.GsmTables AV.Generated.ExnOrder AV.Model.Base AV.Model.Codec
               AV.Spec.Septets AV.Proofs.CodecProofs AV.Proofs.PackedProofs.
Open Scope Z_scope.

(* the Python pack loop computes exactly the bit-stream packing of the standard *)
Theorem C11_pack_is_3gpp_packing :
  forall septets, Forall (fun x => 0 <= x < 128) septets -> pack7 septets = spec_pack septets.
Proof. exact pack7_is_spec_pack. Qed.

Theorem C11_packed_length :
  forall septets, Z.of_nat (length (pack7 septets)) = (7 * Z.of_nat (length septets) + 7) / 8.
Proof. exact pack7_length. Qed.

(* unpacking recovers the septets; 8n-1 septets come back with one extra zero septet *)
Theorem C11_unpack_pack :
  forall septets, Forall (fun x => 0 <= x < 128) septets ->
  unpack7 (pack7 septets) = septets ++ (if Z.of_nat (length septets) mod 8 =? 7 then [0] else []).
Proof. exact unpack_pack. Qed.

(* text level: the packed encoding of a GSM text is the packing of its unpacked encoding, and
   decoding returns the text, with one trailing commercial-at exactly when 8n-1 septets were packed;
   extension pairs (escape + code) are ordinary septets here, so they survive any octet boundary *)
Theorem C11_text_roundtrip :
  forall s, is_gsm_text s = true ->
  forall m, exists codes,
    to_gsm_codes m s = Some codes /\ Forall (fun x => 0 <= x < 128) codes
    /\ gsm_packed_encode m s = Ok (spec_pack codes)
    /\ Z.of_nat (length (spec_pack codes)) = (7 * Z.of_nat (length codes) + 7) / 8
    /\ forall m', gsm_packed_decode m' (spec_pack codes)
                  = Ok (s ++ (if Z.of_nat (length codes) mod 8 =? 7 then [64] else [])).
Proof. exact packed_roundtrip. Qed.

Example C11_nonvacuous :
  (* "H?{\r" of the test-suite, 7 septets (the 8n-1 case), and an escape pair across an octet boundary *)
  gsm_packed_encode Strict [72; 252; 108; 107] = Ok [72; 63; 123; 13]
  /\ pack7 [1; 2; 3; 4; 5; 6; 7] = spec_pack [1; 2; 3; 4; 5; 6; 7]
  /\ unpack7 (pack7 [1; 2; 3; 4; 5; 6; 7]) = [1; 2; 3; 4; 5; 6; 7; 0]
  /\ gsm_packed_decode Strict (pack7 [72; 27; 101]) = Ok [72; 8364].
Proof. vm_compute. repeat split; reflexivity. Qed.
