(* C13 - a response matches only the one outstanding request with its sequence number. *)
From Coq Require Import ZArith List Bool.
Import ListNotations.
Require Import AV.Generated.SmppConsts AV.Generated.Handled AV.Model.Base AV.Model.Seq AV.Model.Resume AV.Proofs.SeqProofs AV.Proofs.ResumeProofs.
Open Scope Z_scope.

(* (a) every number handed out lies in the generator's range, whatever state it was started in *)
Theorem C13_generator_range :
  forall g, wf_gen g ->
  let '(n, g') := next_sequence g in
  sg_min g <= n <= sg_max g /\ wf_gen g' /\ sg_min g' = sg_min g /\ sg_max g' = sg_max g /\ sg_cur g' = n.
Proof. exact next_in_range. Qed.

(* the default generator's range is 1..0x7FFFFFFF and passes assert_valid_sequence *)
Theorem C13_default_range :
  (MIN_SEQUENCE_NUMBER = 1 /\ MAX_SEQUENCE_NUMBER = 2147483647
   /\ seqgen_default_min = 1 /\ seqgen_default_max = 2147483647)
  /\ forall n, seqgen_default_min <= n <= seqgen_default_max -> valid_sequence n = true.
Proof. split; [exact spec_range | exact default_generator_valid]. Qed.

(* after any history (assignments, puts, drops, responses, expiries in any interleaving), the next
   number differs from the number of every outstanding request sent fewer than one generator period
   ago - also across wrap-around, for a generator started anywhere in its range *)
Theorem C13_fresh_number :
  forall g0 es, wf_gen g0 ->
  let s := fst (run (init_state g0) es) in
  let n := fst (next_sequence (ms_gen s)) in
  sg_min g0 <= n <= sg_max g0
  /\ forall q, In q (live s) -> ms_next_id s - rq_id q < period g0 -> rq_seq q <> n.
Proof. exact fresh_sequence_number. Qed.

(* the ESME only ever ADVANCES its two number generators (read off esme.py by the translator: outside __init__ every use of
   self.sequence_generator / self._ref_seq_generator is the receiver of next_sequence()): nothing rewinds or replaces them, in
   particular not at the end of a connect cycle - so the history of C13_fresh_number runs across reconnects *)
Theorem C13_generators_only_advanced : generator_foreign_uses = 0 /\ 2 <= generator_advance_sites.
Proof. split; [reflexivity|discriminate]. Qed.

(* a restart of the application on a persisted correlator (new ESME, default generator; Model/Resume.v, whose rule the translator reads
   off ESME.__init__ and SimpleCorrelator.last_sequence_num): the generator continues after the highest number the correlator still
   knows, so - until it reaches its maximum, 2^31 - 1 by default - no number it hands out is one of the stored ones *)
Theorem C13_resumed_numbers_are_fresh :
  forall mn mx stored n,
  (forall s, In s stored -> 0 < s) -> stored <> [] ->
  zmax0 stored + Z.of_nat n <= mx ->
  forall x, In x (take_numbers n (resume (seq_init mn mx) stored)) -> ~ In x stored.
Proof. exact resumed_numbers_are_fresh. Qed.

(* (b) for every history, no request is ever attributed twice *)
Theorem C13_at_most_once :
  forall g es, NoDup (attributed_ids (snd (run (init_state g) es))).
Proof. exact attribution_at_most_once. Qed.

(* an attribution happens only on a response with the request's number and a compatible command,
   and only while the request is in the store *)
Theorem C13_attribution_sound :
  forall s cmd seq s' os c n q,
  store_keyed s -> step s (EResp cmd seq) = (s', os) -> In (Attributed c n q) os ->
  c = cmd /\ n = seq /\ In (seq, q) (ms_store s) /\ rq_seq q = seq
  /\ (cmd = SmppCommand_GENERIC_NACK \/ lookup (rq_cmd q) command_response_map = Some cmd)
  /\ rq_cmd q = SmppCommand_SUBMIT_SM.
Proof. exact attribution_sound. Qed.

Theorem C13_store_keyed_invariant :
  forall s e, store_keyed s -> store_keyed (fst (step s e)).
Proof. exact step_store_keyed. Qed.

(* unknown numbers and wrong-type responses attribute nothing *)
Theorem C13_unmatched_attributes_nothing :
  forall s cmd seq,
  (fst (pop seq (ms_store s)) = None
   \/ (exists q oc, fst (pop seq (ms_store s)) = Some q /\ cmd <> SmppCommand_GENERIC_NACK
                    /\ lookup cmd response_command_map = Some oc /\ rq_cmd q <> oc)) ->
  attributed_ids (snd (step s (EResp cmd seq))) = [].
Proof. exact unmatched_response_attributes_nothing. Qed.

(* a response of another type than the request stored under its number (and not a generic_nack) is not matched with it at all:
   the state is unchanged, the request stays outstanding for its own response or its time-out (fix: correlator.get() used to take
   the request out before the type was compared) *)
Theorem C13_other_type_leaves_request :
  forall s cmd seq q,
  fst (pop seq (ms_store s)) = Some q -> cmd <> SmppCommand_GENERIC_NACK ->
  lookup (rq_cmd q) command_response_map <> Some cmd ->
  fst (step s (EResp cmd seq)) = s /\ attributed_ids (snd (step s (EResp cmd seq))) = [].
Proof. exact other_type_leaves_request. Qed.

Theorem C13_no_keyerror : forall s cmd seq, ~ In Crash (snd (step s (EResp cmd seq))).
Proof. exact no_crash. Qed.

(* non-vacuity: a generator started just below the maximum wraps; duplicate, unknown and wrong-type
   responses; exactly one attribution; the two requests that only saw responses of another type are still stored *)
Example C13_nonvacuous :
  wf_gen {| sg_min := 1; sg_max := 2147483647; sg_cur := 2147483646 |}
  /\ ser_run 1 2147483647 2147483646
       [EAssign 4; EPut 0; EAssign 21; EPut 1; EAssign 4; EPut 2;
        EResp 2147483669 2147483647;   (* enquire_link_resp for the submit_sm's number: wrong type, the request stays outstanding *)
        EResp 2147483652 1;            (* submit_sm_resp for the enquire_link's number: wrong type *)
        EResp 2147483652 2; EResp 2147483652 2;  (* answer + duplicate *)
        EResp 2147483652 77]           (* unknown *)
     = [1; 2147483652; 2; 2; -1; 2147483647; 0; 1; 1].
Proof. split; [unfold wf_gen; cbn; repeat split; discriminate | vm_compute; reflexivity]. Qed.

Example C13_resume_nonvacuous :
  take_numbers 3 (resume (seq_init 1 2147483647) [2; 3; 4]) = [5; 6; 7]
  /\ take_numbers 2 (resume (seq_init 1 2147483647) []) = [1; 2].
Proof. split; vm_compute; reflexivity. Qed.
