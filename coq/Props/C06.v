(* C06 - nothing the application queues can stop the session; failures reach send_error.
   Model/Send.v (with Model/Split.v and Model/Pdu.v) is tied to esme.py by harness/C06.py, which queues generated SubmitSm
   objects on the real ESME.start() and compares the order and bytes of submit_sm PDUs and the send_error calls. *)
From Coq Require Import ZArith List Bool.
Import ListNotations.
Require Import AV.Generated.ExnOrder AV.Generated.SmppConsts AV.Generated.Handled
               AV.Model.Base AV.Model.Codec AV.Model.Split AV.Model.TimeFmt AV.Model.Seq AV.Model.Receipt AV.Model.Pdu AV.Model.Recv AV.Model.Send
               AV.Proofs.SendProofs.
Open Scope Z_scope.

(* the guarded region of the sender covers the segmentation code (read off esme.py by the translator) *)
Theorem C06_guard_covers_segmentation : sender_guard_covers_segmentation = true.
Proof. reflexivity. Qed.

(* building the PDUs of ANY constructor-valid SubmitSm - any text, alphabet, UDHI bit, encoding name, error handler, integer
   field, optional parameters, default alphabet, segmentation reference - ends normally or with ValueError (incl.
   UnicodeEncodeError), struct.error, KeyError or LookupError: classes the sender treats as build errors (it also treats TypeError so: codecs of
   Python that do not turn text into octets, e.g. 'hex', raise it - those codecs are outside this model, oracle only) *)
Theorem C06_build_errors_closed :
  forall default m ref cmd,
  ctor_ok m = true ->
  match segment_msgs default m ref with Err e => e = EXN_Unmodelled \/ build_caught e = true | Ok _ => True end
  /\ match encode_sm default cmd m with Err e => e = EXN_Unmodelled \/ build_caught e = true | Ok _ => True end.
Proof.
  intros default m ref cmd Hc. split.
  - pose proof (okE_segment_msgs default m ref) as H. destruct (segment_msgs default m ref) as [s|e]; [exact I|].
    destruct (Z.eq_dec e EXN_Unmodelled) as [E|N]; [left; exact E|right; exact (build_errors_caught e H N)].
  - pose proof (okE_encode_sm default cmd m Hc) as H. destruct (encode_sm default cmd m) as [s|e]; [exact I|].
    destruct (Z.eq_dec e EXN_Unmodelled) as [E|N]; [left; exact E|right; exact (build_errors_caught e H N)].
Qed.

(* one queued message: transmitted in full, or handed to send_error exactly once (after the segments already written);
   in both cases the loop goes on *)
Theorem C06_one_message :
  forall default st idx m ev st' stop,
  ctor_ok m = true -> send_one default st idx m = (ev, st', stop) ->
  (stop = None \/ stop = Some EXN_Unmodelled)
  /\ (  (exists pdus, ev = map EvWrite pdus)
     \/ (exists pdus e, ev = map EvWrite pdus ++ [EvSendError idx e])).
Proof. exact send_one_continues. Qed.

(* any queue, of any length *)
Theorem C06_queue_never_stops_sender :
  forall default msgs st idx ev st' stop,
  forallb ctor_ok msgs = true -> run_queue default st idx msgs = (ev, st', stop) ->
  stop = None \/ stop = Some EXN_Unmodelled.
Proof. exact run_queue_never_stops. Qed.

(* order of queueing is order on the wire *)
Theorem C06_order :
  forall default m t st idx,
  let '(ev1, st1, stop1) := send_one default st idx m in
  stop1 = None ->
  let '(ev2, st2, stop2) := run_queue default st1 (S idx) t in
  run_queue default st idx (m :: t) = (ev1 ++ ev2, st2, stop2).
Proof. exact run_queue_order. Qed.

(* what the session does NOT survive: an exception outside the build classes in the Sender task *)
Example C06_what_would_escape :
  build_caught EXN_StructError = true /\ build_caught EXN_KeyError = true /\ build_caught EXN_LookupError = true
  /\ build_caught EXN_UnicodeEncodeError = true /\ build_caught EXN_TypeError = true /\ build_caught EXN_AttributeError = false
  /\ build_caught EXN_ConnectionError = false.
Proof. vm_compute. repeat split; reflexivity. Qed.
