(* C03 - PDU encode/decode round trip.  Model/Pdu.v is tied to protocol.py by the correspondence run of
   harness/C03.py (bytes and exception class of pdu(), fields and exception class of parse_header/from_pdu). *)
From Coq Require Import ZArith List Bool Lia.
Import ListNotations.
Require Import AV.Generated.ExnOrder AV.Generated.SmppConsts AV.Model.Base AV.Model.Codec AV.Model.Split AV.Model.TimeFmt AV.Model.Pdu
               AV.Spec.Smpp34 AV.Proofs.PduProofs AV.Proofs.WireProofs AV.Proofs.SmProofs.
Open Scope Z_scope.

(* command_length equals the number of bytes produced: every class, every field assignment that encodes at all,
   every default alphabet *)
Theorem C03_command_length :
  forall default msg b, encode default msg = Ok b -> unpackI b 0 = Ok (Z.of_nat (length b)).
Proof. exact encode_length. Qed.

(* the 16-byte header reads back as the four values written, whatever follows it *)
Theorem C03_header_roundtrip :
  forall len cmd st seq hd rest,
  pack_header len cmd st seq = Ok hd -> mem cmd SmppCommand_values = true -> mem st SmppCommandStatus_values = true ->
  parse_header (hd ++ rest) = Ok {| h_len := len; h_cmd := cmd; h_status := st; h_seq := seq |}.
Proof. exact header_roundtrip. Qed.

(* generic_nack, enquire_link, enquire_link_resp, unbind, unbind_resp *)
Theorem C03_plain_roundtrip :
  forall default cmd seq st b,
  mem cmd message_type_map_keys = true -> mem cmd SmppCommand_values = true -> mem st SmppCommandStatus_values = true ->
  (cmd =? SmppCommand_SUBMIT_SM) || (cmd =? SmppCommand_DELIVER_SM) = false ->
  (cmd =? SmppCommand_SUBMIT_SM_RESP) || (cmd =? SmppCommand_DELIVER_SM_RESP) = false ->
  is_bind cmd = false -> is_bind_resp cmd = false ->
  encode default (MPlain cmd seq st) = Ok b ->
  exists h, parse_header b = Ok h /\ decode default b h = Ok (MPlain cmd seq st).
Proof. exact plain_roundtrip. Qed.

(* submit_sm_resp, deliver_sm_resp: every message id of up to 64 non-NUL ASCII characters, every status *)
Theorem C03_smresp_roundtrip :
  forall default cmd seq st mid b,
  (cmd =? SmppCommand_SUBMIT_SM_RESP) || (cmd =? SmppCommand_DELIVER_SM_RESP) = true ->
  mem cmd SmppCommand_values = true -> mem st SmppCommandStatus_values = true ->
  ok_cstr mid -> (length mid <= 64)%nat ->
  encode default (MSmResp cmd seq st mid) = Ok b ->
  exists h, parse_header b = Ok h /\ decode default b h = Ok (MSmResp cmd seq st mid).
Proof. exact smresp_roundtrip. Qed.

(* bind_transceiver, bind_transmitter, bind_receiver: all C-octet strings up to their maximum lengths,
   every interface_version byte, every TON/NPI member *)
Theorem C03_bind_roundtrip :
  forall default cmd bd b,
  is_bind cmd = true -> mem cmd SmppCommand_values = true -> wf_bind bd ->
  encode default (MBind cmd bd) = Ok b ->
  exists h, parse_header b = Ok h /\ decode default b h = Ok (MBind cmd bd).
Proof. exact bind_roundtrip. Qed.

(* bind_*_resp with and without sc_interface_version *)
Theorem C03_bindresp_roundtrip :
  forall default cmd seq st sid ver b,
  is_bind_resp cmd = true -> mem cmd SmppCommand_values = true -> mem st SmppCommandStatus_values = true ->
  ok_cstr sid -> (length sid <= 15)%nat -> (forall v, ver = Some v -> 0 <= v <= 255) ->
  encode default (MBindResp cmd seq st sid ver) = Ok b ->
  exists h, parse_header b = Ok h /\ decode default b h = Ok (MBindResp cmd seq st sid ver).
Proof. exact bindresp_roundtrip. Qed.

(* submit_sm / deliver_sm: every assignment of the mandatory fields, any text the chosen alphabet can carry (GSM, IA5,
   Latin-1, UCS2; automatic selection with UCS2 fallback), any length (beyond 254 octets the text travels in
   message_payload), any list of optional parameters of any kind in any order, any default alphabet: decoding the bytes
   produced yields the message back up to exactly the documented normalisations, spelled out by sm_back - text in
   message_payload when it does not fit or was given there, an explicitly named default alphabet read back as automatic,
   unset flag parameters absent, the two time fields as the time parser reads the strings written (their own round trip
   is C17).  Messages with the UDHI bit are outside this theorem (their segmentation round trip is C08/C09). *)
Theorem C03_sm_roundtrip :
  forall default cmd m b sch val,
  (cmd =? SmppCommand_SUBMIT_SM) || (cmd =? SmppCommand_DELIVER_SM) = true -> mem cmd SmppCommand_values = true ->
  sm_domain default m ->
  (forall s1, time_to_smpp (s_sched m) = Ok s1 -> ok_cstr s1 /\ smpp_to_time s1 = Ok sch) ->
  (forall s1, time_to_smpp (s_valid m) = Ok s1 -> ok_cstr s1 /\ smpp_to_time s1 = Ok val) ->
  encode default (MSm cmd m) = Ok b ->
  exists h ce bytes, parse_header b = Ok h /\ decode default b h = Ok (MSm cmd (sm_back m default ce bytes sch val))
                     /\ (exists e', smpp_encode default m (text_of m) = Ok (bytes, e')) /\ codec_decode ce bytes = Ok (text_of m).
Proof. exact sm_roundtrip. Qed.

(* the optional parameters on their own: what the encoder writes for a list of parameters is read back as that list
   without its unset flags, whatever else is in the PDU *)
Theorem C03_optional_parameters :
  forall esm codec opts acc payload,
  Forall opt_wf opts -> Forall (fun p => exists b, op_tlv p = Ok b) opts ->
  tlvs_meaning esm codec (tl_of opts) acc payload = Ok (acc ++ norm_opts opts, payload).
Proof. exact meaning_of_opts. Qed.

(* the hypotheses are met and encoding succeeds *)
Example C03_nonvacuous :
  ser_encode EncGsm (MPlain 21 7 0) = [0; 0; 0; 0; 16; 0; 0; 0; 21; 0; 0; 0; 0; 0; 0; 0; 7]
  /\ (exists b, encode EncGsm (MBindResp SmppCommand_BIND_TRANSCEIVER_RESP 1 0 [83; 77; 83; 67] (Some 52)) = Ok b /\ length b = 26%nat)
  /\ (exists b, encode EncGsm (MSmResp SmppCommand_SUBMIT_SM_RESP 1 0 [49; 50]) = Ok b /\ length b = 19%nat)
  /\ (let m := {| s_seq := 7; s_status := 0; s_short := [72; 105; 8364]; s_src := {| ph_number := [49]; ph_ton := 1; ph_npi := 1 |};
                  s_dst := {| ph_number := [50; 51]; ph_ton := 1; ph_npi := 1 |}; s_service := [67; 77; 84]; s_esm := 3; s_pid := 255; s_prio := 1;
                  s_sched := TNone; s_valid := TNone; s_regdel := 1; s_replace := 0; s_enc := None; s_defmsg := 0; s_payload := [];
                  s_opts := [{| op_tag := 524; op_val := TInt 65535 |}; {| op_tag := 4876; op_val := TBool false |};
                             {| op_tag := 30; op_val := TStr [97; 98] |}];
                  s_auto := true; s_err := HStrict; s_pre := [] |} in
      sm_domain EncGsm m /\ exists b, encode EncGsm (MSm SmppCommand_SUBMIT_SM m) = Ok b /\ length b = 56%nat).
Proof.
  split; [vm_compute; reflexivity|]. split; [eexists; (split; [vm_compute; reflexivity|reflexivity])|].
  split; [eexists; (split; [vm_compute; reflexivity|reflexivity])|].
  cbv zeta. split; [|eexists; split; [vm_compute; reflexivity|reflexivity]].
  constructor; cbn [s_status s_pre s_err s_esm s_enc s_service s_src s_dst s_opts ph_number ph_ton ph_npi]; try reflexivity.
  - intros e H. discriminate.
  - split; [repeat constructor; lia|cbn; lia].
  - split; [repeat constructor; lia|]. split; [cbn; lia|]. split; vm_compute; reflexivity.
  - split; [repeat constructor; lia|]. split; [cbn; lia|]. split; vm_compute; reflexivity.
  - repeat constructor; try (vm_compute; discriminate); try (cbn; exact I); try (cbn; repeat constructor; lia).
Qed.
