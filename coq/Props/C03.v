(* C03 - PDU encode/decode round trip.  Model/Pdu.v is tied to protocol.py by the correspondence run of
   harness/C03.py (bytes and exception class of pdu(), fields and exception class of parse_header/from_pdu). *)
From Coq Require Import ZArith List Bool.
Import ListNotations.
Require Import AV.Generated.ExnOrder AV.Generated.SmppConsts AV.Model.Base AV.Model.Codec AV.Model.Split AV.Model.TimeFmt AV.Model.Pdu
               AV.Proofs.PduProofs.
Open Scope Z_scope.

(* command_length equals the number of bytes produced: every class, every field assignment that encodes at all,
   every default alphabet *)
Theorem C03_command_length :
  forall default msg b, encode default msg = Ok b -> unpackI b 0 = Ok (Z.of_nat (length b)).
Proof. exact encode_length. Qed.

(* the 16-byte header reads back as the four values written, whatever follows it *)
Theorem C03_header_roundtrip :
  forall len cmd st seq hd rest,
  pack_header len cmd st seq = Ok hd -> mem cmd SmppCommand_values = true -> mem st SmppCommandStatus_values = true ->
  parse_header (hd ++ rest) = Ok {| h_len := len; h_cmd := cmd; h_status := st; h_seq := seq |}.
Proof. exact header_roundtrip. Qed.

(* generic_nack, enquire_link, enquire_link_resp, unbind, unbind_resp *)
Theorem C03_plain_roundtrip :
  forall default cmd seq st b,
  mem cmd message_type_map_keys = true -> mem cmd SmppCommand_values = true -> mem st SmppCommandStatus_values = true ->
  (cmd =? SmppCommand_SUBMIT_SM) || (cmd =? SmppCommand_DELIVER_SM) = false ->
  (cmd =? SmppCommand_SUBMIT_SM_RESP) || (cmd =? SmppCommand_DELIVER_SM_RESP) = false ->
  is_bind cmd = false -> is_bind_resp cmd = false ->
  encode default (MPlain cmd seq st) = Ok b ->
  exists h, parse_header b = Ok h /\ decode default b h = Ok (MPlain cmd seq st).
Proof. exact plain_roundtrip. Qed.

(* submit_sm_resp, deliver_sm_resp: every message id of up to 64 non-NUL ASCII characters, every status *)
Theorem C03_smresp_roundtrip :
  forall default cmd seq st mid b,
  (cmd =? SmppCommand_SUBMIT_SM_RESP) || (cmd =? SmppCommand_DELIVER_SM_RESP) = true ->
  mem cmd SmppCommand_values = true -> mem st SmppCommandStatus_values = true ->
  ok_cstr mid -> (length mid <= 64)%nat ->
  encode default (MSmResp cmd seq st mid) = Ok b ->
  exists h, parse_header b = Ok h /\ decode default b h = Ok (MSmResp cmd seq st mid).
Proof. exact smresp_roundtrip. Qed.

(* bind_transceiver, bind_transmitter, bind_receiver: all C-octet strings up to their maximum lengths,
   every interface_version byte, every TON/NPI member *)
Theorem C03_bind_roundtrip :
  forall default cmd bd b,
  is_bind cmd = true -> mem cmd SmppCommand_values = true -> wf_bind bd ->
  encode default (MBind cmd bd) = Ok b ->
  exists h, parse_header b = Ok h /\ decode default b h = Ok (MBind cmd bd).
Proof. exact bind_roundtrip. Qed.

(* bind_*_resp with and without sc_interface_version *)
Theorem C03_bindresp_roundtrip :
  forall default cmd seq st sid ver b,
  is_bind_resp cmd = true -> mem cmd SmppCommand_values = true -> mem st SmppCommandStatus_values = true ->
  ok_cstr sid -> (length sid <= 15)%nat -> (forall v, ver = Some v -> 0 <= v <= 255) ->
  encode default (MBindResp cmd seq st sid ver) = Ok b ->
  exists h, parse_header b = Ok h /\ decode default b h = Ok (MBindResp cmd seq st sid ver).
Proof. exact bindresp_roundtrip. Qed.

(* the hypotheses are met and encoding succeeds *)
Example C03_nonvacuous :
  ser_encode EncGsm (MPlain 21 7 0) = [0; 0; 0; 0; 16; 0; 0; 0; 21; 0; 0; 0; 0; 0; 0; 0; 7]
  /\ (exists b, encode EncGsm (MBindResp SmppCommand_BIND_TRANSCEIVER_RESP 1 0 [83; 77; 83; 67] (Some 52)) = Ok b /\ length b = 26%nat)
  /\ (exists b, encode EncGsm (MSmResp SmppCommand_SUBMIT_SM_RESP 1 0 [49; 50]) = Ok b /\ length b = 19%nat).
Proof. split; [vm_compute; reflexivity|]. split; eexists; (split; [vm_compute; reflexivity|reflexivity]). Qed.
