(* C12 - JSON serialisation round trip preserves every message completely.
   Model/Json.v is tied to jsonutils.py / the from_json methods by the correspondence runs of harness/C12.py. *)
From Coq Require Import ZArith List Bool String.
Import ListNotations.
Require Import AV.Generated.ExnOrder AV.Generated.SmppConsts AV.Model.Base AV.Model.TimeFmt AV.Model.Pdu AV.Model.Json AV.Proofs.JsonProofs.
Open Scope Z_scope.

(* every message of every class whose attributes are its dataclass fields with values of their types
   (log_id, extra_data, command_status, optional parameters, both kinds of time value included) decodes back to itself *)
Theorem C12_roundtrip : forall m, wf m -> exists j, to_json m = Ok j /\ of_json j = Ok m.
Proof. exact json_roundtrip. Qed.

(* the encoded form is a plain JSON object that names the message type *)
Theorem C12_names_type :
  forall m j, to_json m = Ok j ->
  exists name spec fields, class_by_cmd (m_cmd m) class_table = Some (name, spec)
    /\ j = JObj (("__smpp_command__"%string, JStr (codes name)) :: fields).
Proof. exact names_type. Qed.

(* all 15 classes are in the table, under distinct names and with distinct keys *)
Theorem C12_table : forallb entry_ok class_table = true /\ List.length class_table = 15%nat.
Proof. split; [exact table_ok|reflexivity]. Qed.

Example C12_nonvacuous :
  wf {| m_cmd := SmppCommand_GENERIC_NACK;
        m_fields := [("sequence_num"%string, VInt 7); ("command_status"%string, VInt 3);
                     ("log_id"%string, VStr [76; 49]); ("extra_data"%string, VStr [])] |}.
Proof.
  eexists _, _. split; [vm_compute; reflexivity|].
  repeat (constructor; [split; [reflexivity|cbn; try exact I; try (vm_compute; reflexivity)]|]). constructor.
Qed.
