(* C01 - every submitted message gets exactly one, correctly attributed send outcome.
   Model/Handlers.v + Model/Correlator.v (response handling, per-segment status, cumulated status, expiry) are tied to
   esme.py/correlator.py by harness/C01.py and harness/C02.py: histories of puts, accepting / rejecting / nack responses and
   time-outs are driven through the real handlers and compared event by event; whole sessions are checked by an oracle. *)
From Coq Require Import ZArith QArith List Bool Lia.
Import ListNotations.
Require Import AV.Generated.ExnOrder AV.Generated.SmppConsts AV.Generated.Handled
               AV.Model.Base AV.Model.PyDict AV.Model.Limiter AV.Model.Correlator AV.Model.Seq AV.Model.Handlers AV.Model.SenderCancel
               AV.Proofs.HandlersProofs AV.Proofs.OutcomeProofs AV.Proofs.ConcurrentProofs AV.Proofs.CancelProofs.
Open Scope Z_scope.

(* one segmented message of ANY number k >= 2 of segments under ANY reference, ANY admissible interleaving of its events
   (each segment: stored after its write, in the order sent; then accepted, rejected with any error status, answered by a
   generic_nack, or timed out): the hooks see NO outcome while a segment is unprocessed, and EXACTLY ONE once all are -
   carrying the message's log_id; it is the accepting submit_sm_resp iff every segment was accepted, otherwise a failure
   (send_error, or a response that is a nack or carries an error status) *)
Theorem C01_segmented_outcome :
  forall r log k sq uid gs,
  (2 <= k <= 255)%nat ->
  (forall i j, (i < k)%nat -> (j < k)%nat -> sq i = sq j -> i = j) ->
  ovalid k sq (fun _ => QNot) None gs ->
  verdict log k (fst (ofinal (fun _ => QNot) None gs))
          (concat (hrun_each hinit (map (oconc r log k sq uid) gs))).
Proof. intros r log k sq uid gs [Hk Hk255] Hinj Hv. exact (outcome_exactly_once r log k sq uid Hk Hk255 Hinj gs Hv). Qed.

(* ... and the hooks see exactly the specified calls, event by event *)
Theorem C01_event_by_event :
  forall r log k sq uid gs s q lr,
  (2 <= k <= 255)%nat ->
  (forall i j, (i < k)%nat -> (j < k)%nat -> sq i = sq j -> i = j) ->
  QI r log k sq uid s q lr -> ovalid k sq q lr gs ->
  hrun_each s (map (oconc r log k sq uid) gs) = ospec log k q lr gs.
Proof. intros r log k sq uid gs s q lr [Hk Hk255] Hinj. exact (o_run r log k sq uid Hk Hk255 Hinj gs s q lr). Qed.

(* ANY NUMBER n of segmented messages in flight at the same time - distinct sequence numbers, each with any number >= 2 of segments, and
   ANY segmentation references, also EQUAL ones (the 8-bit reference is re-used after 256 messages: the status cell of a message is keyed
   by its reference together with the sequence number of its first segment) - and ANY interleaving of their events in which the segments
   of two messages with the same reference are not stored interleaved (the sender stores one message after the other): restricted to
   the events of message j, the hooks see exactly what they would see if message j were alone - so every message gets exactly one
   outcome, carrying its own log, once all its segments are processed, and nothing before; what the other messages do in between cannot
   change, duplicate, suppress or borrow it *)
Theorem C01_concurrent_messages :
  forall (n : nat) (D : nat -> mdesc),
  (forall j, (j < n)%nat ->
     (2 <= md_k (D j) <= 255)%nat /\ 0 <= md_r (D j) < 65536
     /\ forall a b, (a < md_k (D j))%nat -> (b < md_k (D j))%nat -> md_sq (D j) a = md_sq (D j) b -> a = b) ->
  (forall i j, (i < n)%nat -> (j < n)%nat -> i <> j ->
     forall a b, (a < md_k (D i))%nat -> (b < md_k (D j))%nat -> md_sq (D i) a <> md_sq (D j) b) ->
  forall (gs : list gev) (j : nat),
  gvalid n D (fun _ _ => QNot) (fun _ => None) gs -> (j < n)%nat ->
  pick j gs (hrun_each hinit (map (gconc D) gs)) = ospec (md_log (D j)) (md_k (D j)) (fun _ => QNot) None (proj j gs)
  /\ ovalid (md_k (D j)) (md_sq (D j)) (fun _ => QNot) None (proj j gs)
  /\ verdict (md_log (D j)) (md_k (D j)) (fst (ofinal (fun _ => QNot) None (proj j gs)))
             (concat (pick j gs (hrun_each hinit (map (gconc D) gs)))).
Proof. exact concurrent_outcomes. Qed.

(* ... and stray responses anywhere in between - responses with a number that is not outstanding (unsolicited, duplicate, late) or of
   another type than the request stored under their number - change nothing: the events of the messages are enabled and produce
   exactly what they produce without the strays, and what the hook gets for a stray response carries no message's identity *)
Theorem C01_stray_responses :
  forall (n : nat) (D : nat -> mdesc),
  (forall j, (j < n)%nat ->
     (2 <= md_k (D j) <= 255)%nat /\ 0 <= md_r (D j) < 65536
     /\ forall a b, (a < md_k (D j))%nat -> (b < md_k (D j))%nat -> md_sq (D j) a = md_sq (D j) b -> a = b) ->
  (forall i j, (i < n)%nat -> (j < n)%nat -> i <> j ->
     forall a b, (a < md_k (D i))%nat -> (b < md_k (D j))%nat -> md_sq (D i) a <> md_sq (D j) b) ->
  forall xs s Q LR,
  MI n D s Q LR -> xvalid n D s Q LR xs ->
  gvalid n D Q LR (xmsgs xs)
  /\ xpick xs (hrun_each s (map (xconc D) xs)) = gspec D Q LR (xmsgs xs)
  /\ forall outs o, In outs (xstray_outs xs (hrun_each s (map (xconc D) xs))) -> In o outs ->
       match o with HResp _ l _ _ => l = 0 | HSendError _ => False | _ => True end.
Proof. exact stray_responses_change_nothing. Qed.

(* non-vacuity of the concurrent statement: two messages of two segments each UNDER THE SAME REFERENCE 5, both in flight, responses
   interleaved; message 0 is accepted, message 1 has its second segment rejected - the run is valid, and the hooks see one success for
   log 7 and one failure for log 8 *)
Example C01_concurrent_nonvacuous :
  let D := fun j => match j with
                    | O => {| md_r := 5; md_log := 7; md_k := 2; md_sq := fun i => 101 + Z.of_nat i; md_uid := fun i => 10 + Z.of_nat i |}
                    | _ => {| md_r := 5; md_log := 8; md_k := 2; md_sq := fun i => 201 + Z.of_nat i; md_uid := fun i => 20 + Z.of_nat i |}
                    end in
  let ok u sq := {| rs_uid := u; rs_cmd := 2147483652; rs_seq := sq; rs_status := 0 |} in
  let gs := [(0%nat, OPut 0); (0%nat, OPut 1); (1%nat, OPut 0); (0%nat, OResp 0 (ok 31 101) 501); (1%nat, OPut 1);
             (1%nat, OResp 1 {| rs_uid := 32; rs_cmd := 2147483652; rs_seq := 202; rs_status := 88 |} 0);
             (0%nat, OResp 1 (ok 33 102) 502); (1%nat, OResp 0 (ok 34 201) 503)] in
  gvalid 2 D (fun _ _ => QNot) (fun _ => None) gs
  /\ concat (hrun_each hinit (map (gconc D) gs)) = [HRaw; HRaw; HResp 31 7 2147483652 0; HResp 32 8 2147483652 88].
Proof.
  cbn zeta. split.
  - cbn. unfold upd, qupd, storing. cbn. repeat split; try lia; try reflexivity; try discriminate; try (left; reflexivity);
      try (cbn; lia); try (cbn; discriminate);
      try (intros i Hi Hne r'' E; destruct i as [|[|i]]; try lia; try congruence; cbn in E; try discriminate;
           injection E as <-; cbn; discriminate);
      try (cbn [snd fst]; intros i Hi Hne _ [H0 (a & Ha & Hq)]; destruct i as [|[|i]]; try lia; try congruence; cbn in H0, Ha, Hq;
           destruct a as [|[|a]]; cbn in Hq; try discriminate; try lia; apply H0; reflexivity).
  - vm_compute. reflexivity.
Qed.

(* a message that is not segmented: its response - whatever it is - reaches the received hook at once with the message's
   identity, and its time-out reaches send_error with the message *)
Theorem C01_plain_outcome :
  (forall s r' mid e,
     (rs_cmd r' = SmppCommand_SUBMIT_SM_RESP \/ rs_cmd r' = SmppCommand_GENERIC_NACK) ->
     dget (rs_seq r') (c_store (h_corr s)) = Some e -> sm_cmd (e_msg e) = SmppCommand_SUBMIT_SM ->
     dget (rs_seq r') (c_seg (h_corr s)) = None -> snd (sm_sar (e_msg e)) = 0 ->
     snd (handle_response s r' mid) = [HResp (rs_uid r') (sm_log (e_msg e)) (rs_cmd r') (rs_status r')])
  /\ (forall s sq e,
        dget sq (c_store (h_corr s)) = Some e -> sm_cmd (e_msg e) = SmppCommand_SUBMIT_SM -> sm_seq (e_msg e) = sq ->
        dget sq (c_seg (h_corr s)) = None ->
        snd (hstep s (HExpire sq)) = [HSendError (sm_log (e_msg e))]).
Proof. split; [exact plain_outcome | exact plain_timeout]. Qed.

(* the sender torn down in the middle of a message of k parts (Model/SenderCancel.v; the handler's rule is read off esme.py by the
   translator): wherever the cancellation strikes - before or inside correlator.put() of any part -
   (a) if the handler reports the message, then whatever the SMSC answers to the parts already recorded and whichever of them time
       out, in any order, the correlator never produces an outcome for it: the handler's report is the only one;
   (b) if the handler keeps quiet, every part is recorded, so C01_segmented_outcome applies to the complete message: exactly one
       outcome once every part is answered or timed out. *)
Theorem C01_cancelled_sender :
  forall r log k sq uid c gs,
  (2 <= k <= 255)%nat ->
  (forall i j, (i < k)%nat -> (j < k)%nat -> sq i = sq j -> i = j) ->
  (cp_index c < k)%nat ->
  (handler_reports k c = true ->
     ovalid k sq (fun _ => QNot) None gs -> (forall i, In (OPut i) gs -> (i < stored_parts c)%nat) ->
     filter is_outcome (concat (hrun_each hinit (map (oconc r log k sq uid) gs))) = [])
  /\ (handler_reports k c = false -> stored_parts c = k).
Proof. exact cancelled_sender. Qed.

(* a message that is not segmented: reported by the handler exactly when the correlator does not hold it *)
Theorem C01_cancelled_plain :
  forall c, cp_index c = 0%nat ->
  (handler_reports 1 c = true /\ stored_parts c = 0%nat) \/ (handler_reports 1 c = false /\ stored_parts c = 1%nat).
Proof. exact cancelled_plain. Qed.

(* the handler with the sweep that correlator.get() runs before returning (requests that time out while a response is being
   correlated) is the plain handler when nothing times out; its behaviour with time-outs is validated against the real code *)
Theorem C01_in_call_sweep : forall s r' mid, handle_response_x [] s r' mid = handle_response s r' mid.
Proof. exact handle_response_x_nil. Qed.

(* the status a message ends with: failed beats timed-out beats accepted *)
Theorem C01_failure_wins :
  forall k q, (2 <= k <= 255)%nat -> all_processed k q = true ->
  (final_code k q = STATUS_SENT <-> forall i, (i < k)%nat -> q i = QOk).
Proof. intros k q [Hk Hk255]. exact (all_ok_code k Hk Hk255 q). Qed.

Example C01_nonvacuous :
  let seg i := {| sm_uid := 10 + i; sm_cmd := 4; sm_seq := 100 + i; sm_log := 7; sm_sar := (5, i, 3) |} in
  (* three segments: the first is rejected, the second accepted, the third times out: one outcome, at the very end *)
  ser_hrun [HPut (seg 1); HPut (seg 2); HPut (seg 3);
            HResponse {| rs_uid := 21; rs_cmd := 2147483652; rs_seq := 101; rs_status := 88 |} 0;
            HResponse {| rs_uid := 22; rs_cmd := 2147483652; rs_seq := 102; rs_status := 0 |} 502;
            HExpire 103]
  = [0; 0; 4; 7; -5; 1; 1; -7; -8; 101; 102; -9; -10; 502; 12]
  /\ ovalid 3 (fun i => 101 + Z.of_nat i) (fun _ => QNot) None
       [OPut 0; OPut 1; OPut 2;
        OResp 0 {| rs_uid := 21; rs_cmd := 2147483652; rs_seq := 101; rs_status := 88 |} 0;
        OResp 1 {| rs_uid := 22; rs_cmd := 2147483652; rs_seq := 102; rs_status := 0 |} 502;
        OExpire 2].
Proof.
  split; [vm_compute; reflexivity|].
  cbn. unfold qupd. cbn. repeat split; try lia; try reflexivity; try discriminate; try (left; reflexivity); intros; discriminate.
Qed.

(* non-vacuity of C01_cancelled_sender: a three-part message, cancelled in the sending hook of part 3 (parts 1, 2 recorded): the handler
   reports it; part 1 is then accepted and part 2 times out - a valid history - and the hooks see nothing *)
Example C01_cancelled_nonvacuous :
  let sq := fun i => 101 + Z.of_nat i in
  let gs := [OPut 0; OPut 1; OResp 0 {| rs_uid := 21; rs_cmd := 2147483652; rs_seq := 101; rs_status := 0 |} 501; OExpire 1] in
  handler_reports 3 (BeforePut 2) = true /\ stored_parts (BeforePut 2) = 2%nat
  /\ ovalid 3 sq (fun _ => QNot) None gs
  /\ (forall i, In (OPut i) gs -> (i < 2)%nat)
  /\ filter is_outcome (concat (hrun_each hinit (map (oconc 5 7 3 sq (fun i => 10 + Z.of_nat i)) gs))) = []
  /\ handler_reports 3 (InsidePut 2) = false /\ stored_parts (InsidePut 2) = 3%nat.
Proof.
  cbn zeta. split; [reflexivity|]. split; [reflexivity|]. split.
  - cbn. repeat split; try lia; try (intros; discriminate); auto.
  - split.
    + intros i [H|[H|[H|[H|[]]]]]; try discriminate; injection H as <-; lia.
    + split; [vm_compute; reflexivity|]. split; reflexivity.
Qed.
