(* C01 - every submitted message gets exactly one, correctly attributed send outcome.
   Model/Handlers.v + Model/Correlator.v (response handling, per-segment status, cumulated status, expiry) are tied to
   esme.py/correlator.py by harness/C01.py and harness/C02.py: histories of puts, accepting / rejecting / nack responses and
   time-outs are driven through the real handlers and compared event by event; whole sessions are checked by an oracle. *)
From Coq Require Import ZArith QArith List Bool Lia.
Import ListNotations.
Require Import AV.Generated.ExnOrder AV.Generated.SmppConsts AV.Generated.Handled
               AV.Model.Base AV.Model.PyDict AV.Model.Limiter AV.Model.Correlator AV.Model.Seq AV.Model.Handlers
               AV.Proofs.HandlersProofs AV.Proofs.OutcomeProofs.
Open Scope Z_scope.

(* one segmented message of ANY number k >= 2 of segments under ANY reference, ANY admissible interleaving of its events
   (each segment: stored after its write, in the order sent; then accepted, rejected with any error status, answered by a
   generic_nack, or timed out): the hooks see NO outcome while a segment is unprocessed, and EXACTLY ONE once all are -
   carrying the message's log_id; it is the accepting submit_sm_resp iff every segment was accepted, otherwise a failure
   (send_error, or a response that is a nack or carries an error status) *)
Theorem C01_segmented_outcome :
  forall r log k sq uid gs,
  (2 <= k)%nat ->
  (forall i j, (i < k)%nat -> (j < k)%nat -> sq i = sq j -> i = j) ->
  ovalid k sq (fun _ => QNot) None gs ->
  verdict log k (fst (ofinal (fun _ => QNot) None gs))
          (concat (hrun_each hinit (map (oconc r log k sq uid) gs))).
Proof. intros r log k sq uid gs Hk Hinj Hv. exact (outcome_exactly_once r log k sq uid Hk Hinj gs Hv). Qed.

(* ... and the hooks see exactly the specified calls, event by event *)
Theorem C01_event_by_event :
  forall r log k sq uid gs s q lr,
  (2 <= k)%nat ->
  (forall i j, (i < k)%nat -> (j < k)%nat -> sq i = sq j -> i = j) ->
  QI r log k sq uid s q lr -> ovalid k sq q lr gs ->
  hrun_each s (map (oconc r log k sq uid) gs) = ospec log k q lr gs.
Proof. intros r log k sq uid gs s q lr Hk Hinj. exact (o_run r log k sq uid Hk Hinj gs s q lr). Qed.

(* a message that is not segmented: its response - whatever it is - reaches the received hook at once with the message's
   identity, and its time-out reaches send_error with the message *)
Theorem C01_plain_outcome :
  (forall s r' mid e,
     (rs_cmd r' = SmppCommand_SUBMIT_SM_RESP \/ rs_cmd r' = SmppCommand_GENERIC_NACK) ->
     dget (rs_seq r') (c_store (h_corr s)) = Some e -> sm_cmd (e_msg e) = SmppCommand_SUBMIT_SM ->
     dget (rs_seq r') (c_seg (h_corr s)) = None -> snd (sm_sar (e_msg e)) = 0 ->
     snd (handle_response s r' mid) = [HResp (rs_uid r') (sm_log (e_msg e)) (rs_cmd r') (rs_status r')])
  /\ (forall s sq e,
        dget sq (c_store (h_corr s)) = Some e -> sm_cmd (e_msg e) = SmppCommand_SUBMIT_SM -> sm_seq (e_msg e) = sq ->
        dget sq (c_seg (h_corr s)) = None ->
        snd (hstep s (HExpire sq)) = [HSendError (sm_log (e_msg e))]).
Proof. split; [exact plain_outcome | exact plain_timeout]. Qed.

(* the handler with the sweep that correlator.get() runs before returning (requests that time out while a response is being
   correlated) is the plain handler when nothing times out; its behaviour with time-outs is validated against the real code *)
Theorem C01_in_call_sweep : forall s r' mid, handle_response_x [] s r' mid = handle_response s r' mid.
Proof. exact handle_response_x_nil. Qed.

(* the status a message ends with: failed beats timed-out beats accepted *)
Theorem C01_failure_wins :
  forall k q, (2 <= k)%nat -> all_processed k q = true ->
  (final_code k q = STATUS_SENT <-> forall i, (i < k)%nat -> q i = QOk).
Proof. intros k q Hk. exact (all_ok_code k Hk q). Qed.

Example C01_nonvacuous :
  let seg i := {| sm_uid := 10 + i; sm_cmd := 4; sm_seq := 100 + i; sm_log := 7; sm_sar := (5, i, 3) |} in
  (* three segments: the first is rejected, the second accepted, the third times out: one outcome, at the very end *)
  ser_hrun [HPut (seg 1); HPut (seg 2); HPut (seg 3);
            HResponse {| rs_uid := 21; rs_cmd := 2147483652; rs_seq := 101; rs_status := 88 |} 0;
            HResponse {| rs_uid := 22; rs_cmd := 2147483652; rs_seq := 102; rs_status := 0 |} 502;
            HExpire 103]
  = [0; 0; 4; 7; -5; 1; 1; -7; -8; 101; 102; -9; -10; 502; 12]
  /\ ovalid 3 (fun i => 101 + Z.of_nat i) (fun _ => QNot) None
       [OPut 0; OPut 1; OPut 2;
        OResp 0 {| rs_uid := 21; rs_cmd := 2147483652; rs_seq := 101; rs_status := 88 |} 0;
        OResp 1 {| rs_uid := 22; rs_cmd := 2147483652; rs_seq := 102; rs_status := 0 |} 502;
        OExpire 2].
Proof.
  split; [vm_compute; reflexivity|].
  cbn. unfold qupd. cbn. repeat split; try lia; try reflexivity; try discriminate; try (left; reflexivity); intros; discriminate.
Qed.
