(* C01 placeholder while the proofs are written *)
From Coq Require Import ZArith List Bool.
Import ListNotations.
Require Import AV.Model.Base AV.Model.PyDict AV.Model.Correlator AV.Model.Handlers.
Open Scope Z_scope.
Example C01_nonvacuous : True. Proof. exact I. Qed.
