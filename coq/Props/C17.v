(* C17 - schedule and validity times convert to SMPP time format and back unchanged. *)
From Coq Require Import ZArith List Bool.
Import ListNotations.
Require Import AV.Generated.ExnOrder AV.Model.Base AV.Model.TimeFmt AV.Proofs.TimeProofs.
Open Scope Z_scope.

(* absolute: 'YYMMDDhhmmsstnnp', nn = |offset| in quarter hours (00-48), p its sign; parsing returns
   the same civil fields at 0.1 s resolution with the same offset (a naive datetime reads back as +00) *)
Theorem C17_absolute :
  forall c,
  2000 <= c_year c <= 2099 ->
  valid_datetime (c_year c) (c_month c) (c_day c) (c_hour c) (c_minute c) (c_second c) (c_us c) = true ->
  quarter_offset c ->
  time_to_smpp (TDate c) =
    Ok (two (c_year c mod 100) ++ two (c_month c) ++ two (c_day c) ++ two (c_hour c) ++ two (c_minute c)
        ++ two (c_second c) ++ [digit (c_us c / 100000)] ++ two (offset_quarters c) ++ [offset_sign c])
  /\ 0 <= offset_quarters c <= 48
  /\ forall s, time_to_smpp (TDate c) = Ok s -> length s = 16%nat /\ smpp_to_time s = Ok (TDate (truncated c)).
Proof. exact absolute_roundtrip. Qed.

(* relative: 'YYMMDDhhmmss000R', exact round trip for every whole-second duration up to 63 weeks *)
Theorem C17_relative :
  forall d, within_63_weeks d ->
  let y := td_days d / 365 in let r := td_days d mod 365 in
  let ts := td_seconds d in
  time_to_smpp (TDelta d) =
    Ok (two y ++ two (r / 30) ++ two (r mod 30) ++ two (ts / 3600) ++ two ((ts mod 3600) / 60)
        ++ two ((ts mod 3600) mod 60) ++ [48; 48; 48; 82])
  /\ forall s, time_to_smpp (TDelta d) = Ok s -> length s = 16%nat /\ smpp_to_time s = Ok (TDelta d).
Proof. exact relative_roundtrip. Qed.

Theorem C17_beyond_63_weeks_rejected :
  forall d, 0 <= td_seconds d -> 0 <= td_us d ->
  (441 < td_days d \/ (td_days d = 441 /\ (0 < td_seconds d \/ 0 < td_us d))) ->
  time_to_smpp (TDelta d) = Err EXN_ValueError.
Proof. exact beyond_63_weeks_rejected. Qed.

Theorem C17_unset : time_to_smpp TNone = Ok [] /\ smpp_to_time [] = Ok TNone.
Proof. exact empty_is_none. Qed.

(* the helper that parses the time-zone part of an ISO 8601 datetime (FixedOffset.from_timezone, an anchor of this property):
   '+hhmm' is hh hours mm minutes east of UTC, '-hhmm' the same west of UTC - for every sign, hour and minute field *)
Theorem C17_from_timezone :
  forall (positive : bool) h m, 0 <= h < 100 -> 0 <= m < 100 ->
  from_timezone ((if positive then 43 else 45) :: two h ++ two m) = Ok ((if positive then 1 else -1) * (h * 60 + m)).
Proof. exact from_timezone_offset. Qed.

Example C17_nonvacuous :
  let c := {| c_year := 2024; c_month := 2; c_day := 29; c_hour := 23; c_minute := 59; c_second := 58;
              c_us := 734567; c_off := Some (-11700) |} in
  valid_datetime 2024 2 29 23 59 58 734567 = true /\ quarter_offset c
  /\ time_to_smpp (TDate c) = Ok [50;52;48;50;50;57;50;51;53;57;53;56;55;49;51;45]   (* 240229235958713- *)
  /\ within_63_weeks {| td_days := 441; td_seconds := 0; td_us := 0 |}
  /\ time_to_smpp (TDelta {| td_days := 364; td_seconds := 86399; td_us := 0 |})
     = Ok [48;48;49;50;48;52;50;51;53;57;53;57;48;48;48;82].                          (* 001204235959000R *)
Proof.
  cbn zeta. split; [reflexivity|]. split; [exists (-13); split; [split; discriminate|reflexivity]|].
  split; [vm_compute; reflexivity|]. split; [|vm_compute; reflexivity].
  unfold within_63_weeks; cbn. repeat split; try discriminate. right; split; reflexivity.
Qed.
