(* C08 - segmentation is lossless and every segment fits a single short message. *)
From Coq Require Import ZArith List Bool.
Import ListNotations.
Require Import AV.Generated.GsmTables AV.Generated.ExnOrder AV.Generated.SmppConsts AV.Generated.Handled
               AV.Model.Base AV.Model.Codec AV.Model.Split AV.Spec.Receiver
               AV.Proofs.ChunkProofs AV.Proofs.SplitProofs.
Open Scope Z_scope.

(* For every text, both methods (UDHI flag in esm_class chooses UDH, otherwise SAR) and every
   reference the ESME can generate: whatever the sender emits is accepted by the independent receiver
   of Spec/Receiver.v - every segment within the single-PDU limits, one reference, total n <= 255,
   sequence numbers 1..n in order, same esm_class and data_coding, every segment decodable on its own
   in strict mode (no split escape or surrogate pair) - and the receiver reassembles exactly the text. *)
Theorem C08_segments_received :
  forall text esm ref segs,
  0 <= ref <= 255 -> 0 <= esm <= 255 ->
  prepare_segments text esm ref = Ok segs -> receiver ref segs = Ok text.
Proof. exact prepare_received. Qed.

Theorem C08_at_most_255_segments :
  forall text esm ref segs,
  0 <= ref <= 255 -> 0 <= esm <= 255 -> prepare_segments text esm ref = Ok segs -> (1 <= length segs <= 255)%nat.
Proof. exact prepare_at_most_255. Qed.

(* split_sms_udh with a 16-bit reference (256..65535) *)
Theorem C08_udh_16bit_reference :
  forall text ref parts,
  256 <= ref <= 65535 -> split_sms_udh text None ref = Ok parts -> (2 <= length parts)%nat ->
  receiver ref (map (fun p => {| seg_esm := 64; seg_dc := detect_format text; seg_sm := p; seg_sar := None |}) parts) = Ok text.
Proof. exact split_udh16_received. Qed.

(* the two splitting loops, any limit: lossless, sized, never cutting an escape / surrogate pair *)
Theorem C08_gsm_chunks :
  forall text codes L, gsm_encode Strict text = Ok codes -> (2 <= L)%nat ->
  let chunks := gsm_chunks L codes in
  concat chunks = codes
  /\ Forall (fun c => (1 <= length c <= L)%nat) chunks
  /\ Forall (fun c => last c 0 <> ESCAPE) chunks
  /\ decode_each (gsm_decode Strict) chunks = Ok text
  /\ (length chunks <= length codes)%nat.
Proof. exact gsm_parts. Qed.

Theorem C08_ucs2_chunks :
  forall text bytes h, ucs2_encode text = Ok bytes -> (2 <= h)%nat ->
  let chunks := ucs2_chunks (2 * h) bytes in
  concat chunks = bytes
  /\ Forall (fun c => (1 <= length c <= 2 * h)%nat) chunks
  /\ (exists uchunks, chunks = map bytes_of_units uchunks
                      /\ Forall (fun c => is_high (last c 0) = false) uchunks
                      /\ Forall (Forall unit16) uchunks)
  /\ decode_each ucs2_decode chunks = Ok text
  /\ (length chunks <= length bytes)%nat.
Proof. exact ucs2_parts. Qed.

Theorem C08_limits : MAX_SM_SIZE = 254 /\ MAX_SEPTET_SIZE = 160 /\ MAX_OCTET_SIZE = 140
                     /\ IE_ID_8BIT = 0 /\ IE_ID_16BIT = 8.
Proof. exact const_sizes. Qed.

(* "All segments of one message carry that message's addressing and options": each segment the sender emits is obtained from
   smpp_message.clone() and only its text and its list of optional parameters are touched afterwards; clone() hands every
   constructor field of the SubmitSm dataclass (own and inherited; 21 of them, validity_period among them) to the copy. Both facts
   are read off esme.py / protocol.py by the translator on every run (Generated/Handled.v). *)
Theorem C08_segments_are_full_copies :
  sender_segments_are_clones = true /\ submit_sm_clone_missing_fields = []
  /\ In [118; 97; 108; 105; 100; 105; 116; 121; 95; 112; 101; 114; 105; 111; 100] submit_sm_fields
  /\ (21 <= length submit_sm_fields)%nat.
Proof. split; [reflexivity|]. split; [reflexivity|]. split; [vm_compute; tauto|vm_compute; repeat constructor]. Qed.

(* non-vacuity: an extension character on the 153-septet boundary of a UDH-segmented text, and a
   surrogate pair on the 127-unit boundary of a SAR-segmented text *)
Example C08_nonvacuous :
  let t1 := repeat 97 152 ++ [8364] ++ repeat 98 10 in
  let t2 := repeat 1099 126 ++ [128512] ++ repeat 1099 5 in
  (exists segs, prepare_segments t1 64 7 = Ok segs /\ map (fun s => Z.of_nat (length (seg_sm s))) segs = [158; 18]
                /\ receiver 7 segs = Ok t1)
  /\ (exists segs, prepare_segments t2 0 255 = Ok segs /\ map (fun s => Z.of_nat (length (seg_sm s))) segs = [252; 14]
                   /\ receiver 255 segs = Ok t2).
Proof.
  cbn zeta. split.
  - eexists. split; [vm_compute; reflexivity|]. split; vm_compute; reflexivity.
  - eexists. split; [vm_compute; reflexivity|]. split; vm_compute; reflexivity.
Qed.
