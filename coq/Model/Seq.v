(* Executable model of sequence.py (SimpleSequenceGenerator) and of the request/response
   matching done by ESME._send_data (sequence assignment + correlator.put) and
   ESME._handle_response (filter, correlator.get = pop, compatibility test, attribution). *)
From Coq Require Import ZArith List Bool.
Import ListNotations.
Require Import AV.Generated.SmppConsts AV.Generated.Handled AV.Model.Base.
Open Scope Z_scope.

Record seqgen := { sg_min : Z; sg_max : Z; sg_cur : Z }.

(* SimpleSequenceGenerator.__init__ *)
Definition seq_init (mn mx : Z) : seqgen := {| sg_min := mn; sg_max := mx; sg_cur := mn - 1 |}.

(* SimpleSequenceGenerator.next_sequence *)
Definition next_sequence (g : seqgen) : Z * seqgen :=
  let n := if sg_cur g =? sg_max g then sg_min g else sg_cur g + 1 in
  (n, {| sg_min := sg_min g; sg_max := sg_max g; sg_cur := n |}).

(* sequence.assert_valid_sequence: true = no ValueError *)
Definition valid_sequence (n : Z) : bool := (MIN_SEQUENCE_NUMBER <=? n) && (n <=? MAX_SEQUENCE_NUMBER).

(* ---- requests, the correlator's _store as an insertion-ordered dict ---- *)

Record request := { rq_id : Z;    (* ghost: index of the send in the history *)
                    rq_cmd : Z;   (* SmppCommand value *)
                    rq_seq : Z }. (* sequence number on the wire *)

Definition store := list (Z * request).

Fixpoint put (s : store) (k : Z) (r : request) : store :=
  match s with
  | [] => [(k, r)]
  | (k', r') :: t => if k =? k' then (k, r) :: t else (k', r') :: put t k r
  end.

Fixpoint pop (k : Z) (s : store) : option request * store :=
  match s with
  | [] => (None, [])
  | (k', r') :: t =>
    if k =? k' then (Some r', t)
    else let '(o, t') := pop k t in (o, (k', r') :: t')
  end.

Definition has_key (k : Z) (s : store) : bool := existsb (fun kv => k =? fst kv) s.

Record mstate := { ms_gen : seqgen;
                   ms_pending : list request;   (* number assigned, correlator.put not yet reached *)
                   ms_store : store;
                   ms_next_id : Z }.

Inductive event :=
| EAssign (cmd : Z)          (* _send_data: sequence number assigned (lines 380-385), then it may suspend *)
| EPut (id : Z)              (* the same _send_data reaches correlator.put (line 421) *)
| EDrop (id : Z)             (* the same _send_data fails before correlator.put (hook/transport error, cancel) *)
| EResp (cmd seq : Z)        (* _handle_response of a PDU with this header whose body parses *)
| EExpire (seq : Z).         (* the expiry sweep deletes this key *)

Inductive outcome :=
| Attributed (resp_cmd resp_seq : Z) (q : request)   (* log_id/extra_data of q copied onto the response *)
| Collision (q : request)                            (* a put overwrote an outstanding request *)
| InvalidSeq (n : Z)                                 (* assert_valid_sequence raised *)
| Crash.                                             (* KeyError in RESPONSE_COMMAND_MAP[...] *)

Definition response_command_map := invert command_response_map.

Definition is_request (cmd : Z) : bool := match lookup cmd command_response_map with Some _ => true | None => false end.

Fixpoint take_id (id : Z) (l : list request) : option request * list request :=
  match l with
  | [] => (None, [])
  | q :: t => if rq_id q =? id then (Some q, t) else let '(o, t') := take_id id t in (o, q :: t')
  end.

Definition upd (s : mstate) (p : list request) (st : store) : mstate :=
  {| ms_gen := ms_gen s; ms_pending := p; ms_store := st; ms_next_id := ms_next_id s |}.

Definition other_type (cmd : Z) (o : option request) : bool :=
  match o with
  | Some q => negb (cmd =? SmppCommand_GENERIC_NACK)
              && negb (match lookup (rq_cmd q) command_response_map with Some c => c =? cmd | None => false end)
  | None => false
  end.

Definition step (s : mstate) (e : event) : mstate * list outcome :=
  match e with
  | EAssign cmd =>
    if is_request cmd then
      let '(n, g') := next_sequence (ms_gen s) in
      let q := {| rq_id := ms_next_id s; rq_cmd := cmd; rq_seq := n |} in
      if valid_sequence n then
        ({| ms_gen := g'; ms_pending := q :: ms_pending s; ms_store := ms_store s; ms_next_id := ms_next_id s + 1 |}, [])
      else
        ({| ms_gen := g'; ms_pending := ms_pending s; ms_store := ms_store s; ms_next_id := ms_next_id s + 1 |}, [InvalidSeq n])
    else (s, [])
  | EPut id =>
    match take_id id (ms_pending s) with
    | (None, _) => (s, [])
    | (Some q, p') =>
      let coll := match fst (pop (rq_seq q) (ms_store s)) with Some old => [Collision old] | None => [] end in
      (upd s p' (put (ms_store s) (rq_seq q) q), coll)
    end
  | EDrop id => (upd s (snd (take_id id (ms_pending s))) (ms_store s), [])
  | EResp cmd seq =>
    if negb (mem cmd handled_response_commands) then (s, [])
    else
      let original_command :=
          if cmd =? SmppCommand_GENERIC_NACK then Ok None
          else match lookup cmd response_command_map with
               | Some oc => Ok (Some oc)
               | None => Err 5 (* KeyError *)
               end in
      match original_command with
      | Err _ => (s, [Crash])
      | Ok oc =>
        (* correlator.get(): a stored request is taken out only by a response of its own type or by a generic_nack; a response of
           another type leaves it outstanding (fix: it used to be popped first and checked afterwards) *)
        if other_type cmd (fst (pop seq (ms_store s))) then (s, [])
        else
        let '(orig, st') := pop seq (ms_store s) in
        let s' := upd s (ms_pending s) st' in
        match orig with
        | None => (s', [])
        | Some q =>
          let mismatch := match oc with Some c => negb (rq_cmd q =? c) | None => false end in
          if mismatch then (s', [])
          else if ((cmd =? SmppCommand_SUBMIT_SM_RESP) || (cmd =? SmppCommand_GENERIC_NACK))
                  && (rq_cmd q =? SmppCommand_SUBMIT_SM)
               then (s', [Attributed cmd seq q])
               else (s', [])
        end
      end
  | EExpire seq => (upd s (ms_pending s) (snd (pop seq (ms_store s))), [])
  end.

Fixpoint run (s : mstate) (es : list event) : mstate * list outcome :=
  match es with
  | [] => (s, [])
  | e :: t => let '(s1, o1) := step s e in let '(s2, o2) := run s1 t in (s2, o1 ++ o2)
  end.

Definition init_state (g : seqgen) : mstate :=
  {| ms_gen := g; ms_pending := []; ms_store := []; ms_next_id := 0 |}.

(* serialisation for the correspondence harness *)
Definition ser_outcome (o : outcome) : list Z :=
  match o with
  | Attributed c n q => [1; c; n; rq_id q]
  | Collision q => [2; rq_id q]
  | InvalidSeq n => [3; n]
  | Crash => [4]
  end.

Definition ser_run (mn mx cur : Z) (es : list event) : list Z :=
  let '(s, o) := run (init_state {| sg_min := mn; sg_max := mx; sg_cur := cur |}) es in
  flat_map ser_outcome o ++ [-1] ++ flat_map (fun kv => [fst kv; rq_id (snd kv)]) (ms_store s).
