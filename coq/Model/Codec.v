(* Executable model of aiosmpplib/codec.py: GSM7BitCodec, GSM7BitPackedCodec (no proofs here). *)
From Coq Require Import ZArith List Bool.
Import ListNotations.
Require Import AV.Generated.GsmTables AV.Generated.ExnOrder AV.Model.Base.
Open Scope Z_scope.

Inductive errmode := Strict | Replace | Ignore.

(* GSM_BASIC_ENCODE_MAP / GSM_EXTENDED_ENCODE_MAP: the inversion comprehensions *)
Definition gsm_basic_encode_map := invert gsm_basic_decode_map.
Definition gsm_extended_encode_map := invert gsm_extended_decode_map.

(* GSM7BitCodec.to_gsm_codes; None = UnicodeEncodeError *)
Fixpoint to_gsm_codes (errors : errmode) (text : list Z) : option (list Z) :=
  match text with
  | [] => Some []
  | c :: t =>
    match lookup c gsm_basic_encode_map with
    | Some code => option_map (cons code) (to_gsm_codes errors t)
    | None =>
      match lookup c gsm_extended_encode_map with
      | Some code => option_map (fun r => ESCAPE :: code :: r) (to_gsm_codes errors t)
      | None =>
        match errors with
        | Strict => None
        | Replace =>
          option_map (cons (match lookup c gsm_replace_encode_map with Some r => r | None => QUESTION_MARK end))
                     (to_gsm_codes errors t)
        | Ignore => to_gsm_codes errors t
        end
      end
    end
  end.

Definition is_octet (b : Z) : bool := (0 <=? b) && (b <=? 255).

(* struct.pack('!' + 'B'*n, *codes): struct.error unless every code is in 0..255 *)
Definition pack_B (codes : list Z) : res (list Z) :=
  if forallb is_octet codes then Ok codes else Err EXN_StructError.

(* GSM7BitCodec.encode(input, errors)[0] *)
Definition gsm_encode (errors : errmode) (text : list Z) : res (list Z) :=
  match to_gsm_codes errors text with
  | None => Err EXN_UnicodeEncodeError
  | Some codes => pack_B codes
  end.

(* GSM7BitCodec._decode_char: (char or '' , escaped) *)
Definition decode_char (code : Z) (escaped : bool) : option Z * bool :=
  if escaped then
    (* any code without an entry in the extension table yields the placeholder - also the escape code itself *)
    (Some (match lookup code gsm_extended_decode_map with Some c => c | None => NO_BREAK_SPACE end), false)
  else if code =? ESCAPE then (None, true)
  else (lookup code gsm_basic_decode_map, false).

(* the for loop of GSM7BitCodec.decode, then the trailing-escape epilogue *)
Fixpoint gsm_decode_loop (errors : errmode) (input : list Z) (escaped : bool) : res (list Z) :=
  match input with
  | [] =>
    if escaped then
      match errors with
      | Strict => Err EXN_UnicodeDecodeError
      | Replace => Ok [NO_BREAK_SPACE]
      | Ignore => Ok []
      end
    else Ok []
  | b :: rest =>
    let '(ch, esc') := decode_char b escaped in
    if esc' then gsm_decode_loop errors rest esc'
    else
      match ch with
      | Some c => rmap (cons c) (gsm_decode_loop errors rest esc')
      | None =>
        match errors with
        | Strict => Err EXN_UnicodeDecodeError
        | Replace => rmap (cons QUESTION_MARK) (gsm_decode_loop errors rest esc')
        | Ignore => gsm_decode_loop errors rest esc'
        end
      end
  end.

Definition gsm_decode (errors : errmode) (input : list Z) : res (list Z) :=
  gsm_decode_loop errors input false.

(* GSM7BitCodec.is_gsm_text *)
Definition in_alphabet (c : Z) : bool :=
  match lookup c gsm_basic_encode_map with
  | Some _ => true
  | None => match lookup c gsm_extended_encode_map with Some _ => true | None => false end
  end.
Definition is_gsm_text (text : list Z) : bool := forallb in_alphabet text.

(* ---------------------------------------------------------------------------------------
   GSM7BitPackedCodec *)

Definition nthZ (l : list Z) (i : nat) : Z := nth i l 0.

(* the `for index in range(msg_len)` loop: state (count), emits one octet per index *)
Fixpoint pack_loop (codes : list Z) (n : nat) (index : Z) (count : nat) : list Z :=
  match n with
  | O => []
  | S n' =>
    let shift := index mod 7 in
    let lb := nthZ codes count / 2 ^ shift in
    let hb := (nthZ codes (S count) * 2 ^ (7 - shift)) mod 256 in
    (lb + hb) :: pack_loop codes n' (index + 1) (if shift =? 6 then S (S count) else S count)
  end.

Definition packed_len (n : Z) : Z := let bits := n * 7 in bits / 8 + (if 0 <? bits mod 8 then 1 else 0).

(* septets -> octets exactly as the Python loop does (sentinel 0 appended) *)
Definition pack7 (codes : list Z) : list Z :=
  let msg_len := packed_len (Z.of_nat (length codes)) in
  pack_loop (codes ++ [0]) (Z.to_nat msg_len) 0 0%nat.

(* bytearray item assignment: ValueError unless 0..255 *)
Definition gsm_packed_encode (errors : errmode) (text : list Z) : res (list Z) :=
  match to_gsm_codes errors text with
  | None => Err EXN_UnicodeEncodeError
  | Some codes =>
    let out := pack7 codes in
    if forallb is_octet out then Ok out else Err EXN_ValueError
  end.

(* the unpack loop: state (count, last); emits septets *)
Fixpoint unpack_loop (input : list Z) (count : Z) (last : Z) : list Z :=
  match input with
  | [] => []
  | byte :: rest =>
    (* mask = 0x7F >> count = 2^(7-count) - 1 ; x & mask = x mod 2^(7-count) ; >>,<< as / and * *)
    let out := (byte mod 2 ^ (7 - count)) * 2 ^ count + last in
    let last' := byte / 2 ^ (7 - count) in
    if count =? 6 then out :: last' :: unpack_loop rest 0 0
    else out :: unpack_loop rest (count + 1) last'
  end.

Definition unpack7 (input : list Z) : list Z := unpack_loop input 0 0.

(* GSM7BitPackedCodec.decode: chars from septets; unlike the unpacked decoder an unmapped
   septet appends '' (nothing) in every mode and never raises *)
Fixpoint packed_chars (septets : list Z) (escaped : bool) : list Z * bool :=
  match septets with
  | [] => ([], escaped)
  | s :: rest =>
    let '(ch, esc') := decode_char s escaped in
    let '(r, e) := packed_chars rest esc' in
    if esc' then (r, e)
    else match ch with Some c => (c :: r, e) | None => (r, e) end
  end.

Definition gsm_packed_decode (errors : errmode) (input : list Z) : res (list Z) :=
  let '(chars, escaped) := packed_chars (unpack7 input) false in
  if escaped then
    match errors with
    | Strict => Err EXN_UnicodeDecodeError
    | Replace => Ok (chars ++ [NO_BREAK_SPACE])
    | Ignore => Ok chars
    end
  else Ok chars.
