(* Executable model of protocol.py / state.py: PDU encoding (pdu()) and decoding (parse_header,
   from_pdu) of the 15 message classes, with the exception classes Python raises. *)
From Coq Require Import ZArith List Bool.
Import ListNotations.
Require Import AV.Generated.GsmTables AV.Generated.ExnOrder AV.Generated.SmppConsts
               AV.Model.Base AV.Model.Codec AV.Model.Split AV.Model.TimeFmt.
Open Scope Z_scope.

Definition EXN_Unmodelled : Z := 99.   (* input outside the modelled fragment (stdlib codecs, exotic error handlers) *)

(* ---- struct.pack / unpack_from, bytes helpers ---- *)
Definition packB (x : Z) : res (list Z) := if (0 <=? x) && (x <=? 255) then Ok [x] else Err EXN_StructError.
Definition packH (x : Z) : res (list Z) := if (0 <=? x) && (x <=? 65535) then Ok [x / 256; x mod 256] else Err EXN_StructError.
Definition packI (x : Z) : res (list Z) :=
  if (0 <=? x) && (x <=? 4294967295) then Ok [x / 16777216; (x / 65536) mod 256; (x / 256) mod 256; x mod 256] else Err EXN_StructError.

Definition rapp (a b : res (list Z)) : res (list Z) := do x <- a; do y <- b; Ok (x ++ y).
Notation "a +++ b" := (rapp a b) (at level 60, right associativity).

Fixpoint rconcat (l : list (res (list Z))) : res (list Z) :=
  match l with [] => Ok [] | x :: t => x +++ rconcat t end.

(* unpack_from(fmt, buf, offset): struct.error when the buffer is too short (offset past the end included) *)
Definition unpackB (b : list Z) (off : nat) : res Z :=
  match skipn off b with x :: _ => Ok x | [] => Err EXN_StructError end.
Definition unpackH (b : list Z) (off : nat) : res Z :=
  match skipn off b with x :: y :: _ => Ok (x * 256 + y) | _ => Err EXN_StructError end.
Definition unpackI (b : list Z) (off : nat) : res Z :=
  match skipn off b with x :: y :: z :: w :: _ => Ok (((x * 256 + y) * 256 + z) * 256 + w) | _ => Err EXN_StructError end.

(* ---- str.encode('ascii') / bytes.decode('ascii') / latin_1 ---- *)
Definition ascii_encode (s : list Z) : res (list Z) :=
  if forallb (fun c => (0 <=? c) && (c <? 128)) s then Ok s else Err EXN_UnicodeEncodeError.
Definition ascii_decode (b : list Z) : res (list Z) :=
  if forallb (fun c => c <? 128) b then Ok b else Err EXN_UnicodeDecodeError.
Definition latin1_encode (s : list Z) : res (list Z) :=
  if forallb (fun c => (0 <=? c) && (c <? 256)) s then Ok s else Err EXN_UnicodeEncodeError.

(* ---- encodings: the names a message may carry in `encoding` ---- *)
Inductive enc :=
| EncGsm | EncGsmPacked | EncAscii | EncLatin1 | EncUcs2
| EncOctet (which : Z)      (* octet_unspecified_I / _II: enum members without a codec *)
| EncStdlib (dc : Z)        (* other SmppDataCoding members whose stdlib codec is not modelled *)
| EncNoMember.              (* a name that is neither a codec nor an enum member *)

Definition enc_data_coding (e : enc) : res Z :=
  match e with
  | EncGsm | EncGsmPacked => Ok SmppDataCoding_gsm0338
  | EncAscii => Ok SmppDataCoding_ascii
  | EncLatin1 => Ok SmppDataCoding_latin_1
  | EncUcs2 => Ok SmppDataCoding_ucs2
  | EncOctet w => Ok w
  | EncStdlib dc => Ok dc
  | EncNoMember => Err EXN_KeyError
  end.

Definition enc_eqb (a b : enc) : bool :=
  match a, b with
  | EncGsm, EncGsm | EncGsmPacked, EncGsmPacked | EncAscii, EncAscii | EncLatin1, EncLatin1 | EncUcs2, EncUcs2
  | EncNoMember, EncNoMember => true
  | EncOctet x, EncOctet y | EncStdlib x, EncStdlib y => x =? y
  | _, _ => false
  end.

Inductive ehandler := HStrict | HReplace | HIgnore | HOther.
Definition to_errmode (h : ehandler) : option errmode :=
  match h with HStrict => Some Strict | HReplace => Some Replace | HIgnore => Some Ignore | HOther => None end.

(* codec_info.encode(text, errors)[0] for the codec named by e *)
Definition codec_encode (e : enc) (h : ehandler) (text : list Z) : res (list Z) :=
  match e with
  | EncGsm => match to_errmode h with Some m => gsm_encode m text | None => Err EXN_ValueError end
  | EncGsmPacked => match to_errmode h with Some m => gsm_packed_encode m text | None => Err EXN_ValueError end
  | EncAscii => match h with HStrict => ascii_encode text | _ => if forallb (fun c => (0 <=? c) && (c <? 128)) text then Ok text else Err EXN_Unmodelled end
  | EncLatin1 => match h with HStrict => latin1_encode text | _ => if forallb (fun c => (0 <=? c) && (c <? 256)) text then Ok text else Err EXN_Unmodelled end
  | EncUcs2 => match ucs2_encode text with Ok b => Ok b | Err x => match h with HStrict => Err x | _ => Err EXN_Unmodelled end end
  | EncOctet _ | EncNoMember => Err EXN_LookupError
  | EncStdlib _ => Err EXN_Unmodelled
  end.

(* codec_info.decode(raw)[0], strict *)
Definition codec_decode (e : enc) (raw : list Z) : res (list Z) :=
  match e with
  | EncGsm => gsm_decode Strict raw
  | EncGsmPacked => gsm_packed_decode Strict raw
  | EncAscii | EncOctet _ => ascii_decode raw          (* LookupError -> the ascii fallback of from_pdu *)
  | EncLatin1 => Ok raw
  | EncUcs2 => ucs2_decode_partial raw
  | EncStdlib _ | EncNoMember => Err EXN_Unmodelled
  end.

(* SmppDataCoding(data_coding).name -> codec, with the ascii fallback on LookupError *)
Definition enc_of_data_coding (dc : Z) (default : enc) : res enc :=
  if dc =? 0 then Ok default
  else if dc =? SmppDataCoding_ascii then Ok EncAscii
  else if dc =? SmppDataCoding_latin_1 then Ok EncLatin1
  else if dc =? SmppDataCoding_ucs2 then Ok EncUcs2
  else if (dc =? SmppDataCoding_octet_unspecified_I) || (dc =? SmppDataCoding_octet_unspecified_II) then Ok (EncOctet dc)
  else if mem dc SmppDataCoding_values then Ok (EncStdlib dc)
  else Err EXN_ValueError.

(* ---- optional parameters ---- *)
Inductive tlvval := TInt (v : Z) | TStr (s : list Z) | TBool (b : bool).
Record optparam := { op_tag : Z; op_val : tlvval }.

Inductive tagtype := TyInt | TyBool | TyStr.
Definition tag_data_type (tag : Z) : tagtype :=
  if mem tag tag_int_tags then TyInt else if tag =? tag_bool_tag then TyBool else TyStr.

(* OptionalParam.length *)
Definition op_length (p : optparam) : Z :=
  if mem (op_tag p) tlv_len1_tags then 1
  else if mem (op_tag p) tlv_len2_tags then 2
  else if mem (op_tag p) tlv_len4_tags then 4
  else if mem (op_tag p) tlv_cstring_tags then match op_val p with TStr s => Z.of_nat (length s) + 1 | _ => 0 end
  else match op_val p with TStr s => Z.of_nat (length s) | _ => 0 end.

Definition pack_width (w v : Z) : res (list Z) :=
  if w =? 1 then packB v else if w =? 2 then packH v else packI v.

(* OptionalParam.tlv *)
Definition op_tlv (p : optparam) : res (list Z) :=
  let len := op_length p in
  match tag_data_type (op_tag p) with
  | TyInt =>
    match lookup len tlv_int_format with
    | None => Err EXN_KeyError
    | Some w => match op_val p with
                | TInt v => packH (op_tag p) +++ packH len +++ pack_width w v
                | _ => Err EXN_StructError
                end
    end
  | TyStr =>
    match op_val p with
    | TStr s =>
      (* C-Octet String tags: ASCII + NUL; Octet String tags: one octet per character (latin_1) *)
      do val <- (if mem (op_tag p) tlv_cstring_tags_tlv then ascii_encode s else latin1_encode s);
      let val := if mem (op_tag p) tlv_cstring_tags_tlv then val ++ [0] else val in
      packH (op_tag p) +++ packH len +++ Ok val
    | _ => Err EXN_AttributeError
    end
  | TyBool =>
    match op_val p with
    | TBool true => packH (op_tag p) +++ packH len
    | _ => Ok []
    end
  end.

(* ---- messages ---- *)
Record phone := { ph_number : list Z; ph_ton : Z; ph_npi : Z }.

Record smsg := { s_seq : Z; s_status : Z;
                 s_short : list Z; s_src : phone; s_dst : phone; s_service : list Z;
                 s_esm : Z; s_pid : Z; s_prio : Z;
                 s_sched : timeval; s_valid : timeval;
                 s_regdel : Z; s_replace : Z;
                 s_enc : option enc; s_defmsg : Z; s_payload : list Z;
                 s_opts : list optparam; s_auto : bool; s_err : ehandler;
                 s_pre : list Z }.    (* _encoded_message set by set_encoded_message ([] = not set) *)

Record bindreq := { b_seq : Z; b_status : Z; b_system_id : list Z; b_password : list Z; b_system_type : list Z;
                    b_iface : Z; b_ton : Z; b_npi : Z; b_range : list Z }.

Inductive message :=
| MSm (cmd : Z) (m : smsg)                                   (* submit_sm / deliver_sm *)
| MSmResp (cmd : Z) (seq status : Z) (mid : list Z)          (* submit_sm_resp / deliver_sm_resp *)
| MBind (cmd : Z) (b : bindreq)
| MBindResp (cmd : Z) (seq status : Z) (system_id : list Z) (sc_ver : option Z)
| MPlain (cmd : Z) (seq status : Z).                         (* generic_nack, enquire_link(_resp), unbind(_resp) *)

Definition pack_header (len cmd status seq : Z) : res (list Z) :=
  packI len +++ packI cmd +++ packI status +++ packI seq.

Definition cstr (s : list Z) : res (list Z) := do b <- ascii_encode s; Ok (b ++ [0]).

Definition sar_tags : list Z := [TAG_SAR_MSG_REF_NUM; TAG_SAR_TOTAL_SEGMENTS; TAG_SAR_SEGMENT_SEQNUM].

(* smpp_encode(text): returns bytes and the (possibly switched) encoding attribute *)
Definition smpp_encode (default : enc) (m : smsg) (text : list Z) : res (list Z * option enc) :=
  match s_enc m with
  | None =>
    match codec_encode default (s_err m) text with
    | Ok b => Ok (b, None)
    | Err e => if e =? EXN_UnicodeEncodeError
               then (do b <- codec_encode EncUcs2 (s_err m) text; Ok (b, Some EncUcs2))
               else Err e
    end
  | Some e => do b <- codec_encode e (s_err m) text; Ok (b, Some e)
  end.

(* SubmitSm.pdu() / DeliverSm.pdu(): bytes and the encoding attribute afterwards *)
Definition encode_sm (default : enc) (cmd : Z) (m : smsg) : res (list Z * option enc) :=
  do st <- (match s_pre m with
            | [] =>
              let text := match s_short m with [] => s_payload m | t => t end in
              do be <- smpp_encode default m text;
              let '(b, e') := be in
              let n := Z.of_nat (length b) in
              if (254 <? n) && (match s_short m with [] => false | _ => true end) && negb (s_auto m) then Err EXN_ValueError
              else if (254 <? n) || (match s_payload m with [] => false | _ => true end)
                   then (do tl <- packH TAG_MESSAGE_PAYLOAD +++ packH n; Ok ([], tl ++ b, e'))
                   else Ok (b, [], e')
            | pre => Ok (pre, [], s_enc m)
            end);
  let '(sm, payload_tlv, e') := st in
  do dc <- (match e' with Some e => enc_data_coding e | None => Ok 0 end);
  do opts <- rconcat (map op_tlv (if 0 <? (s_esm m / 64) mod 2
                                  then filter (fun p => negb (mem (op_tag p) sar_tags)) (s_opts m)
                                  else s_opts m));
  do body <- cstr (s_service m)
             +++ packB (ph_ton (s_src m)) +++ packB (ph_npi (s_src m)) +++ cstr (ph_number (s_src m))
             +++ packB (ph_ton (s_dst m)) +++ packB (ph_npi (s_dst m)) +++ cstr (ph_number (s_dst m))
             +++ packB (s_esm m) +++ packB (s_pid m) +++ packB (s_prio m)
             +++ (do t <- time_to_smpp (s_sched m); cstr t) +++ (do t <- time_to_smpp (s_valid m); cstr t)
             +++ packB (s_regdel m) +++ packB (s_replace m)
             +++ packB dc +++ packB (s_defmsg m) +++ packB (Z.of_nat (length sm))
             +++ Ok sm +++ Ok payload_tlv +++ Ok opts;
  do hd <- pack_header (16 + Z.of_nat (length body)) cmd (s_status m) (s_seq m);
  Ok (hd ++ body, e').

Definition encode (default : enc) (msg : message) : res (list Z) :=
  match msg with
  | MSm cmd m => do r <- encode_sm default cmd m; Ok (fst r)
  | MSmResp cmd seq status mid =>
    do body <- cstr mid; do hd <- pack_header (16 + Z.of_nat (length body)) cmd status seq; Ok (hd ++ body)
  | MBind cmd b =>
    do body <- cstr (b_system_id b) +++ cstr (b_password b) +++ cstr (b_system_type b)
               +++ packB (b_iface b) +++ packB (b_ton b) +++ packB (b_npi b) +++ cstr (b_range b);
    do hd <- pack_header (16 + Z.of_nat (length body)) cmd (b_status b) (b_seq b); Ok (hd ++ body)
  | MBindResp cmd seq status sid ver =>
    do body <- cstr sid +++ (match ver with
                             | Some v => op_tlv {| op_tag := TAG_SC_INTERFACE_VERSION; op_val := TInt v |}
                             | None => Ok []
                             end);
    do hd <- pack_header (16 + Z.of_nat (length body)) cmd status seq; Ok (hd ++ body)
  | MPlain cmd seq status => pack_header 16 cmd status seq
  end.

(* ---------------- decoding ---------------- *)
Record header := { h_len : Z; h_cmd : Z; h_status : Z; h_seq : Z }.

(* SmppMessage.parse_header: struct.error on short input, ValueError on unknown enum values *)
Definition parse_header (b : list Z) : res header :=
  do len <- unpackI b 0; do cmd <- unpackI b 4; do st <- unpackI b 8; do seq <- unpackI b 12;
  if negb (mem cmd SmppCommand_values) then Err EXN_ValueError
  else (* a reserved or vendor specific status is read as ESME_RUNKNOWNERR (the number stays in the raw PDU) *)
       Ok {| h_len := len; h_cmd := cmd; h_status := if mem st SmppCommandStatus_values then st else SmppCommandStatus_ESME_RUNKNOWNERR;
             h_seq := seq |}.

(* bytes.index(NULL, start): position of the first 0 at or after start *)
Fixpoint find_nul (b : list Z) (pos : nat) : option nat :=
  match b with
  | [] => None
  | x :: t => if x =? 0 then Some pos else find_nul t (S pos)
  end.

(* get_c_octet_string: (string, new index) *)
Definition get_cstr (pdu : list Z) (index : nat) : res (list Z * nat) :=
  match find_nul (skipn index pdu) index with
  | None => Err EXN_ValueError
  | Some e => do s <- ascii_decode (firstn (e - index) (skipn index pdu)); Ok (s, S e)
  end.

Definition slice_b (pdu : list Z) (a n : nat) : list Z := firstn n (skipn a pdu).

(* the User Data Header is a sequence of information elements (id, length, data) in any order (3GPP TS 23.040 9.2.3.24): the loop of
   decode_message that looks for the concatenation element, 8-bit (id 0, 3 octets) or 16-bit reference (id 8, 4 octets); other
   elements (application port addressing ...) are skipped. Fix: the pinned code took the first element for the concatenation one *)
Fixpoint scan_ies (fuel : nat) (raw : list Z) (pos end_ : nat) (acc : option (Z * Z * Z)) : res (option (Z * Z * Z)) :=
  match fuel with
  | O => Ok acc
  | S f =>
    if Nat.ltb pos end_ then
      do ie_id <- unpackB raw pos; do ie_len <- unpackB raw (S pos);
      do acc' <- (if (ie_id =? IE_ID_16BIT) && (ie_len =? 4)
                  then (do rf <- unpackH raw (pos + 2); do t <- unpackB raw (pos + 4); do sq <- unpackB raw (pos + 5); Ok (Some (rf, t, sq)))
                  else if (ie_id =? IE_ID_8BIT) && (ie_len =? 3)
                       then (do rf <- unpackB raw (pos + 2); do t <- unpackB raw (pos + 3); do sq <- unpackB raw (pos + 4); Ok (Some (rf, t, sq)))
                       else Ok acc);
      scan_ies f raw (pos + 2 + Z.to_nat ie_len) end_ acc'
    else Ok acc
  end.

(* decode_message(raw): text and the synthetic SAR parameters for a UDH with a concatenation element *)
Definition decode_message (esm : Z) (codec : enc) (raw : list Z) : res (list Z * list optparam) :=
  if (0 <? (esm / 64) mod 2) && (match raw with [] => false | _ => true end) then
    do udh_len <- unpackB raw 0;
    do found <- scan_ies (length raw) raw 1 (Z.to_nat (udh_len + 1)) None;
    do t <- codec_decode codec (skipn (Z.to_nat (udh_len + 1)) raw);
    Ok (t, match found with
           | Some (rf, total, sq) => [{| op_tag := TAG_SAR_MSG_REF_NUM; op_val := TInt rf |};
                                      {| op_tag := TAG_SAR_SEGMENT_SEQNUM; op_val := TInt sq |};
                                      {| op_tag := TAG_SAR_TOTAL_SEGMENTS; op_val := TInt total |}]
           | None => []
           end)
  else do t <- codec_decode codec raw; Ok (t, []).

Definition mem_enum (x : Z) (l : list Z) : res Z := if mem x l then Ok x else Err EXN_ValueError.

(* constructor checks of SubmitSm/DeliverSm that can fail on decoded values *)
Definition check_len (s : list Z) (mx : nat) : res unit := if Nat.leb (length s) mx then Ok tt else Err EXN_ValueError.

(* the TLV loop of from_pdu *)
Fixpoint parse_tlvs (fuel : nat) (esm : Z) (codec : enc) (pdu : list Z) (plen : nat) (index : nat)
         (acc : list optparam) (payload : list Z) : res (list optparam * list Z) :=
  match fuel with
  | O => Err EXN_Unmodelled
  | S f =>
    if Nat.leb plen index then Ok (acc, payload)
    else
      do tag <- unpackH pdu index; do len <- unpackH pdu (index + 2);
      let index := (index + 4)%nat in
      if tag =? TAG_MESSAGE_PAYLOAD then
        do tp <- decode_message esm codec (slice_b pdu index (Z.to_nat len));
        parse_tlvs f esm codec pdu plen (index + Z.to_nat len) (acc ++ snd tp) (fst tp)
      else match tag_data_type tag with
           | TyInt =>
             do v <- (if len =? 1 then unpackB pdu index else if len =? 2 then unpackH pdu index
                      else if len =? 4 then unpackI pdu index else Err EXN_KeyError);
             parse_tlvs f esm codec pdu plen (index + Z.to_nat len) (acc ++ [{| op_tag := tag; op_val := TInt v |}]) payload
           | TyBool => parse_tlvs f esm codec pdu plen index (acc ++ [{| op_tag := tag; op_val := TBool true |}]) payload
           | TyStr =>
             do s <- (if mem tag tlv_cstring_tags_tlv then ascii_decode (slice_b pdu index (Z.to_nat len)) else Ok (slice_b pdu index (Z.to_nat len)));
             let s := if mem tag tlv_cstring_tags_tlv then match rev s with 0 :: r => rev r | _ => s end else s in
             parse_tlvs f esm codec pdu plen (index + Z.to_nat len) (acc ++ [{| op_tag := tag; op_val := TStr s |}]) payload
           end
  end.

Definition decode_sm (default : enc) (pdu : list Z) (h : header) : res smsg :=
  do a <- get_cstr pdu 16; let '(service, i) := a in
  do ston <- unpackB pdu i; do ston <- mem_enum ston TON_values;
  do snpi <- unpackB pdu (i + 1); do snpi <- mem_enum snpi NPI_values;
  do a <- get_cstr pdu (i + 2); let '(snum, i) := a in
  do _ <- check_len snum 20;
  do dton <- unpackB pdu i; do dton <- mem_enum dton TON_values;
  do dnpi <- unpackB pdu (i + 1); do dnpi <- mem_enum dnpi NPI_values;
  do a <- get_cstr pdu (i + 2); let '(dnum, i) := a in
  do _ <- check_len dnum 20;
  do esm <- unpackB pdu i; do pid <- unpackB pdu (i + 1); do prio <- unpackB pdu (i + 2);
  do a <- get_cstr pdu (i + 3); let '(sched, i) := a in
  do a <- get_cstr pdu i; let '(valid, i) := a in
  do regdel <- unpackB pdu i; do repl <- unpackB pdu (i + 1); do dc <- unpackB pdu (i + 2);
  do codec <- enc_of_data_coding dc default;
  do defmsg <- unpackB pdu (i + 3); do smlen <- unpackB pdu (i + 4);
  let i := (i + 5)%nat in
  do tp <- decode_message esm codec (slice_b pdu i (Z.to_nat smlen));
  let '(short, opts0) := tp in
  let i := (i + Z.to_nat smlen)%nat in
  do tl <- parse_tlvs (S (length pdu)) esm codec pdu (Z.to_nat (h_len h)) i opts0 [];
  let '(opts, payload) := tl in
  do sch <- smpp_to_time sched; do val <- smpp_to_time valid;
  do _ <- check_len service 5;
  (* an empty text (sm_length 0, no message_payload) is legal; text in both places is not *)
  if (match short with [] => false | _ => true end) && (match payload with [] => false | _ => true end) then Err EXN_ValueError
  else Ok {| s_seq := h_seq h; s_status := 0; s_short := short;
             s_src := {| ph_number := snum; ph_ton := ston; ph_npi := snpi |};
             s_dst := {| ph_number := dnum; ph_ton := dton; ph_npi := dnpi |};
             s_service := service; s_esm := esm; s_pid := pid; s_prio := prio; s_sched := sch; s_valid := val;
             s_regdel := regdel; s_replace := repl;
             s_enc := (if enc_eqb codec default then None else Some codec);
             s_defmsg := defmsg; s_payload := payload; s_opts := opts; s_auto := true; s_err := HStrict; s_pre := [] |}.

Definition is_bind (cmd : Z) : bool :=
  (cmd =? SmppCommand_BIND_TRANSCEIVER) || (cmd =? SmppCommand_BIND_TRANSMITTER) || (cmd =? SmppCommand_BIND_RECEIVER).
Definition is_bind_resp (cmd : Z) : bool :=
  (cmd =? SmppCommand_BIND_TRANSCEIVER_RESP) || (cmd =? SmppCommand_BIND_TRANSMITTER_RESP) || (cmd =? SmppCommand_BIND_RECEIVER_RESP).

(* MESSAGE_TYPE_MAP[cmd].from_pdu(pdu, header, default_encoding) *)
Definition decode (default : enc) (pdu : list Z) (h : header) : res message :=
  let cmd := h_cmd h in
  if (cmd =? SmppCommand_SUBMIT_SM) || (cmd =? SmppCommand_DELIVER_SM) then
    do m <- decode_sm default pdu h; Ok (MSm cmd m)
  else if (cmd =? SmppCommand_SUBMIT_SM_RESP) || (cmd =? SmppCommand_DELIVER_SM_RESP) then
    (* pdu[16 : pdu_length - 1].decode('ascii') *)
    do mid <- ascii_decode (slice_b pdu 16 (Z.to_nat (h_len h - 1) - 16));
    do _ <- check_len mid 64;
    Ok (MSmResp cmd (h_seq h) (h_status h) mid)
  else if is_bind cmd then
    do a <- get_cstr pdu 16; let '(sid, i) := a in
    do a <- get_cstr pdu i; let '(pw, i) := a in
    do a <- get_cstr pdu i; let '(sty, i) := a in
    do ifv <- unpackB pdu i;
    do ton <- unpackB pdu (i + 1); do ton <- mem_enum ton TON_values;
    do npi <- unpackB pdu (i + 2); do npi <- mem_enum npi NPI_values;
    do a <- get_cstr pdu (i + 3); let '(rng, i) := a in
    do _ <- check_len sid 15; do _ <- check_len pw 8; do _ <- check_len sty 12; do _ <- check_len rng 40;
    Ok (MBind cmd {| b_seq := h_seq h; b_status := 0; b_system_id := sid; b_password := pw; b_system_type := sty;
                     b_iface := ifv; b_ton := ton; b_npi := npi; b_range := rng |})
  else if is_bind_resp cmd then
    (* pdu.find(NULL, 16); a body omitted on error status reads as an empty system_id *)
    let e := match find_nul (skipn 16 pdu) 16 with Some e => e | None => length pdu end in
    do sid <- ascii_decode (firstn (e - 16) (skipn 16 pdu));
    let index := S e in
    do ver <- (if Nat.ltb index (Z.to_nat (h_len h)) then
                 (if Nat.eqb (index + 4 + 1) (Z.to_nat (h_len h)) then (do v <- unpackB pdu (index + 4); Ok (Some v)) else Ok None)
               else Ok None);
    do _ <- check_len sid 15;
    Ok (MBindResp cmd (h_seq h) (h_status h) sid ver)
  else if mem cmd message_type_map_keys then Ok (MPlain cmd (h_seq h) (h_status h))
  else Err EXN_KeyError.

(* ---------------- serialisation for the harness ---------------- *)
Definition ser_str (s : list Z) : list Z := Z.of_nat (length s) :: s.
Definition ser_enc (e : option enc) : list Z :=
  match e with
  | None => [0]
  | Some EncGsm => [1] | Some EncGsmPacked => [2] | Some EncAscii => [3] | Some EncLatin1 => [4] | Some EncUcs2 => [5]
  | Some (EncOctet w) => [6; w] | Some (EncStdlib d) => [7; d] | Some EncNoMember => [8]
  end.
Definition ser_opt (p : optparam) : list Z :=
  op_tag p :: match op_val p with TInt v => [1; v] | TStr s => 2 :: ser_str s | TBool b => [3; if b then 1 else 0] end.
Definition ser_phone (p : phone) : list Z := ser_str (ph_number p) ++ [ph_ton p; ph_npi p].
Definition ser_sm (m : smsg) : list Z :=
  [s_seq m; s_status m] ++ ser_str (s_short m) ++ ser_phone (s_src m) ++ ser_phone (s_dst m) ++ ser_str (s_service m)
  ++ [s_esm m; s_pid m; s_prio m] ++ ser_time (s_sched m) ++ ser_time (s_valid m) ++ [s_regdel m; s_replace m]
  ++ ser_enc (s_enc m) ++ [s_defmsg m] ++ ser_str (s_payload m)
  ++ Z.of_nat (length (s_opts m)) :: flat_map ser_opt (s_opts m).
Definition ser_message (msg : message) : list Z :=
  match msg with
  | MSm cmd m => 1 :: cmd :: ser_sm m
  | MSmResp cmd seq st mid => [2; cmd; seq; st] ++ ser_str mid
  | MBind cmd b => [3; cmd; b_seq b; b_status b] ++ ser_str (b_system_id b) ++ ser_str (b_password b) ++ ser_str (b_system_type b)
                   ++ [b_iface b; b_ton b; b_npi b] ++ ser_str (b_range b)
  | MBindResp cmd seq st sid ver => [4; cmd; seq; st] ++ ser_str sid ++ match ver with Some v => [1; v] | None => [0] end
  | MPlain cmd seq st => [5; cmd; seq; st]
  end.
Definition ser_decode (default : enc) (pdu : list Z) : list Z :=
  match parse_header pdu with
  | Err e => [1; e]
  | Ok h => match decode default pdu h with Ok m => 0 :: ser_message m | Err e => [2; e] end
  end.
Definition ser_encode (default : enc) (msg : message) : list Z :=
  match encode default msg with Ok b => 0 :: b | Err e => [1; e] end.
