(* ESME.__init__ with the default generator and a SimpleCorrelator that still knows requests of an earlier run (persisted stores):
   the generator continues after the highest stored sequence number (read off __init__ by the translator:
   Generated/Handled.v esme_resumes_after_stored_numbers; SimpleCorrelator.last_sequence_num is the maximum over the request store,
   the segment store and the delivery store). *)
From Coq Require Import ZArith List Bool Lia.
Import ListNotations.
Require Import AV.Generated.Handled AV.Model.Seq.
Open Scope Z_scope.

Fixpoint zmax0 (l : list Z) : Z := match l with [] => 0 | x :: t => Z.max x (zmax0 t) end.   (* max(..., default=0) *)

Definition resume (g : seqgen) (stored : list Z) : seqgen :=
  if esme_resumes_after_stored_numbers && (0 <? zmax0 stored)
  then {| sg_min := sg_min g; sg_max := sg_max g; sg_cur := zmax0 stored |}
  else g.

(* the first n numbers handed out *)
Fixpoint take_numbers (n : nat) (g : seqgen) : list Z :=
  match n with O => [] | S k => let '(x, g') := next_sequence g in x :: take_numbers k g' end.

Definition ser_resume (mn mx : Z) (stored : list Z) : list Z :=
  let g := resume (seq_init mn mx) stored in sg_cur g :: take_numbers 3 g.
