(* Wire discipline of esme.py: _send_data as a sequence of atomic steps (a coroutine runs without interruption between two
   awaits), tasks interleaved arbitrarily, the bound gate; an independent framer for the byte stream. *)
From Coq Require Import ZArith List Bool.
Import ListNotations.
Require Import AV.Generated.SmppConsts AV.Model.Base.
Open Scope Z_scope.

(* ---- independent framer: cut a byte stream by command_length ---- *)
Definition be32 (b : list Z) : option Z :=
  match b with x :: y :: z :: w :: _ => Some (((x * 256 + y) * 256 + z) * 256 + w) | _ => None end.

Fixpoint frames (fuel : nat) (s : list Z) : list (list Z) * list Z :=
  match fuel with
  | O => ([], s)
  | S f =>
    match s with
    | [] => ([], [])
    | _ =>
      match be32 s with
      | Some n => if (16 <=? n) && (n <=? Z.of_nat (length s))
                  then let '(ps, rest) := frames f (skipn (Z.to_nat n) s) in (firstn (Z.to_nat n) s :: ps, rest)
                  else ([], s)
      | None => ([], s)
      end
    end
  end.

(* a PDU that carries its own length (C03_command_length) *)
Definition whole (p : list Z) : Prop := be32 p = Some (Z.of_nat (length p)) /\ (16 <= length p)%nat.
Definition wholeb (p : list Z) : bool :=
  match be32 p with Some n => (n =? Z.of_nat (length p)) && (16 <=? n) | None => false end.
Definition command_of (p : list Z) : Z := match be32 (skipn 4 p) with Some c => c | None => -1 end.

(* ---- events of a session as seen on the hooks and the transport ---- *)
Inductive wevent :=
| EAnnounce (pdu : list Z)     (* hook.sending(message, pdu) is called *)
| EWrite (pdu : list Z)        (* one writer.write(...) call *)
| EConnect                     (* a new connection: the next write is the first on it *)
| EBound.                      (* the SMSC has sent its positive bind response on the current connection *)

Fixpoint remove_one (p : list Z) (l : list (list Z)) : option (list (list Z)) :=
  match l with
  | [] => None
  | q :: t => if list_eqb p q then Some t else option_map (cons q) (remove_one p t)
  end.

Record wstate := { w_pending : list (list Z);   (* announced, not yet written *)
                   w_first : bool;              (* nothing written on the current connection yet *)
                   w_bound : bool }.            (* its bind has succeeded *)

(* the discipline, as a check over a whole trace *)
Fixpoint wire_check (bind_cmd : Z) (st : wstate) (tr : list wevent) : bool :=
  match tr with
  | [] => true
  | EAnnounce p :: t => wire_check bind_cmd {| w_pending := p :: w_pending st; w_first := w_first st; w_bound := w_bound st |} t
  | EConnect :: t => wire_check bind_cmd {| w_pending := w_pending st; w_first := true; w_bound := false |} t
  | EBound :: t => wire_check bind_cmd {| w_pending := w_pending st; w_first := w_first st; w_bound := true |} t
  | EWrite p :: t =>
    match remove_one p (w_pending st) with
    | None => false                                    (* not announced with these bytes *)
    | Some pend =>
      wholeb p
      && (if w_first st then command_of p =? bind_cmd else w_bound st)
      && wire_check bind_cmd {| w_pending := pend; w_first := false; w_bound := w_bound st |} t
    end
  end.
Definition wire_ok (bind_cmd : Z) (tr : list wevent) : bool :=
  wire_check bind_cmd {| w_pending := []; w_first := true; w_bound := false |} tr.

(* ---- the task model ---- *)
(* a task that sends the PDUs ps one after the other through _send_data: announce, then write *)
Definition task_events (ps : list (list Z)) : list wevent := flat_map (fun p => [EAnnounce p; EWrite p]) ps.

(* all interleavings of the tasks' event sequences *)
Inductive merge : list (list wevent) -> list wevent -> Prop :=
| MergeDone ts : Forall (fun t => t = []) ts -> merge ts []
| MergeStep pre e t post l : merge (pre ++ t :: post) l -> merge (pre ++ (e :: t) :: post) (e :: l).

(* the bytes on the wire *)
Fixpoint wire_bytes (tr : list wevent) : list Z :=
  match tr with [] => [] | EWrite p :: t => p ++ wire_bytes t | _ :: t => wire_bytes t end.
Fixpoint writes (tr : list wevent) : list (list Z) :=
  match tr with [] => [] | EWrite p :: t => p :: writes t | _ :: t => writes t end.

(* ---- the bound gate as a transition system ---- *)
Inductive gstep :=
| GConnect                   (* connect(): only reached after the previous cycle cleared the bound event *)
| GBindWrite (p : list Z)    (* connect() sends the bind request of the configured mode *)
| GBindOk                    (* positive bind response processed: start() sets the bound event *)
| GCycleEnd                  (* start() clears the bound event *)
| GTaskWrite (p : list Z).   (* any other _send_data: passes `await self._bound.wait()` and writes without a further await *)

Record gstate := { g_flag : bool; g_conn_bound : bool; g_first : bool }.
Definition g_enabled (st : gstate) (s : gstep) : bool :=
  match s with
  | GConnect => negb (g_flag st)
  | GBindWrite _ => g_first st
  | GBindOk => negb (g_first st)
  | GCycleEnd => true
  | GTaskWrite _ => g_flag st
  end.
Definition g_next (st : gstate) (s : gstep) : gstate :=
  match s with
  | GConnect => {| g_flag := false; g_conn_bound := false; g_first := true |}
  | GBindWrite _ => {| g_flag := g_flag st; g_conn_bound := g_conn_bound st; g_first := false |}
  | GBindOk => {| g_flag := true; g_conn_bound := true; g_first := g_first st |}
  | GCycleEnd => {| g_flag := false; g_conn_bound := g_conn_bound st; g_first := g_first st |}
  | GTaskWrite _ => {| g_flag := g_flag st; g_conn_bound := g_conn_bound st; g_first := false |}
  end.
Fixpoint g_run (st : gstate) (ss : list gstep) : bool :=
  match ss with [] => true | s :: t => g_enabled st s && g_run (g_next st s) t end.
(* what is written, with the connection state at that moment: (first on its connection, that connection's bind succeeded) *)
Fixpoint g_writes (st : gstate) (ss : list gstep) : list (bool * bool * bool) :=
  match ss with
  | [] => []
  | s :: t =>
    match s with
    | GBindWrite _ => (true, g_first st, g_conn_bound st) :: g_writes (g_next st s) t
    | GTaskWrite _ => (false, g_first st, g_conn_bound st) :: g_writes (g_next st s) t
    | _ => g_writes (g_next st s) t
    end
  end.
