(* Executable model of utils.py: detect_format, split_sms, split_sms_udh (after fix 164ba1d:
   GSM texts are cut on septets), of the UCS2 codec (strict UTF-16BE), and of the segmentation
   block of ESME._dequeue_messages (esme.py:444-490) at the level of segment descriptors. *)
From Coq Require Import ZArith List Bool.
Import ListNotations.
Require Import AV.Generated.GsmTables AV.Generated.ExnOrder AV.Generated.SmppConsts
               AV.Model.Base AV.Model.Codec.
Open Scope Z_scope.

(* ---- UCS2Codec = utf_16_be_encode/decode, strict ---- *)
Definition is_high (u : Z) : bool := (55296 <=? u) && (u <? 56320).   (* D800..DBFF *)
Definition is_low (u : Z) : bool := (56320 <=? u) && (u <? 57344).    (* DC00..DFFF *)

(* code points -> 16-bit units; None = UnicodeEncodeError (lone surrogate) *)
Fixpoint utf16_units (s : list Z) : option (list Z) :=
  match s with
  | [] => Some []
  | c :: t =>
    if (c <? 0) || (1114111 <? c) then None
    else if is_high c || is_low c then None
    else if c <? 65536 then option_map (cons c) (utf16_units t)
    else let v := c - 65536 in
         option_map (fun r => (55296 + v / 1024) :: (56320 + v mod 1024) :: r) (utf16_units t)
  end.

Definition unit_bytes (u : Z) : list Z := [u / 256; u mod 256].
Definition bytes_of_units (us : list Z) : list Z := flat_map unit_bytes us.

Definition ucs2_encode (s : list Z) : res (list Z) :=
  match utf16_units s with Some us => Ok (bytes_of_units us) | None => Err EXN_UnicodeEncodeError end.

(* units -> code points; None = UnicodeDecodeError *)
Fixpoint units_decode (us : list Z) : option (list Z) :=
  match us with
  | [] => Some []
  | u :: t =>
    if is_high u then
      match t with
      | l :: t' => if is_low l then option_map (cons (65536 + (u - 55296) * 1024 + (l - 56320))) (units_decode t') else None
      | [] => None
      end
    else if is_low u then None
    else option_map (cons u) (units_decode t)
  end.

Fixpoint units_of_bytes (b : list Z) : option (list Z) :=
  match b with
  | [] => Some []
  | [_] => None
  | h :: l :: t => option_map (cons (h * 256 + l)) (units_of_bytes t)
  end.

Definition ucs2_decode (b : list Z) : res (list Z) :=
  match units_of_bytes b with
  | Some us => match units_decode us with Some s => Ok s | None => Err EXN_UnicodeDecodeError end
  | None => Err EXN_UnicodeDecodeError
  end.

(* UCS2Codec.decode as the library calls it: utf_16_be_decode(input, errors) with final=False, so a
   trailing odd octet or a trailing high surrogate is incomplete input that is silently left unconsumed *)
Fixpoint units_of_bytes_partial (b : list Z) : list Z :=
  match b with
  | h :: l :: t => (h * 256 + l) :: units_of_bytes_partial t
  | _ => []
  end.
Fixpoint units_decode_partial (us : list Z) : option (list Z) :=
  match us with
  | [] => Some []
  | u :: t =>
    if is_high u then
      match t with
      | l :: t' => if is_low l then option_map (cons (65536 + (u - 55296) * 1024 + (l - 56320))) (units_decode_partial t') else None
      | [] => Some []
      end
    else if is_low u then None
    else option_map (cons u) (units_decode_partial t)
  end.
Definition ucs2_decode_partial (b : list Z) : res (list Z) :=
  match units_decode_partial (units_of_bytes_partial b) with Some s => Ok s | None => Err EXN_UnicodeDecodeError end.

(* ---- detect_format: 0 = 'gsm0338', 8 = 'ucs2' (the data_coding values) ---- *)
Definition detect_format (text : list Z) : Z := if is_gsm_text text then 0 else 8.

(* ---- the `while start < total_len` loops, on the remaining suffix ----
   limit L, a guard on the full chunk that says "the last unit must not be separated from its
   successor", k units given back when the guard fires *)
Fixpoint chunk_loop (fuel : nat) (L k : nat) (guard : list Z -> bool) (rem : list Z) : list (list Z) :=
  match fuel with
  | O => []
  | S f =>
    match rem with
    | [] => []
    | _ =>
      let n := Nat.min L (length rem) in
      let n' := if Nat.eqb n L && guard (firstn L rem) then (n - k)%nat else n in
      firstn n' rem :: chunk_loop f L k guard (skipn n' rem)
    end
  end.

Definition gsm_guard (chunk : list Z) : bool := last chunk 0 =? ESCAPE.
(* text_bytes[end - 2] in 0xD8..0xDB: the high octet of the last 16-bit unit of the chunk *)
Definition ucs2_guard (chunk : list Z) : bool :=
  let hi := nth (length chunk - 2) chunk 0 in (216 <=? hi) && (hi <=? 219).

Definition gsm_chunks (L : nat) (codes : list Z) : list (list Z) := chunk_loop (S (length codes)) L 1 gsm_guard codes.
Definition ucs2_chunks (L : nat) (bytes : list Z) : list (list Z) := chunk_loop (S (length bytes)) L 2 ucs2_guard bytes.

(* encode_user_data(user_data, data_len) = pack('!B', data_len) + user_data *)
Definition encode_user_data (data : list Z) : res (list Z) :=
  if is_octet (Z.of_nat (length data)) then Ok (Z.of_nat (length data) :: data) else Err EXN_StructError.

(* split_sms(text, encoding): encoding 0 = gsm0338, anything else = UCS2 branch; '' = detect *)
Definition split_sms (text : list Z) (encoding : option Z) : res (list (list Z)) :=
  let enc := match encoding with Some e => e | None => detect_format text end in
  if enc =? 0 then
    do codes <- gsm_encode Strict text;
    if Z.of_nat (length codes) <=? MAX_SM_SIZE then (do one <- encode_user_data codes; Ok [one])
    else Ok (gsm_chunks (Z.to_nat MAX_SM_SIZE) codes)
  else
    do bytes <- ucs2_encode text;
    if Z.of_nat (length bytes) <=? MAX_SM_SIZE then (do one <- encode_user_data bytes; Ok [one])
    else Ok (ucs2_chunks (Z.to_nat MAX_SM_SIZE) bytes).

(* bytearray.append(x): ValueError unless 0..255 *)
Definition ba_append (x : Z) : res Z := if is_octet x then Ok x else Err EXN_ValueError.

(* split_sms_udh(text, encoding, csms_ref) *)
Definition split_sms_udh (text : list Z) (encoding : option Z) (ref : Z) : res (list (list Z)) :=
  let wide := 255 <? ref in
  let udh_len := if wide then 6 else 5 in
  let udh_data_len := if wide then 4 else 3 in
  let ie_id := if wide then IE_ID_16BIT else IE_ID_8BIT in
  let enc := match encoding with Some e => e | None => detect_format text end in
  let gsm := enc =? 0 in
  do data <- (if gsm then gsm_encode Strict text else ucs2_encode text);
  let total_len := Z.of_nat (length data) in
  if total_len <=? (if gsm then MAX_SEPTET_SIZE else MAX_OCTET_SIZE) then
    (do one <- encode_user_data data; Ok [one])
  else
    let len_without_udh :=
        if gsm then MAX_SEPTET_SIZE - udh_len - 2
        else MAX_OCTET_SIZE - udh_len - 1 - ((udh_len + 1) mod 2) in
    do refb <- (if wide then (do a <- ba_append (ref / 256); do b <- ba_append (ref mod 256); Ok [a; b])
                else (do a <- ba_append ref; Ok [a]));
    let chunks := if gsm then gsm_chunks (Z.to_nat len_without_udh) data
                  else ucs2_chunks (Z.to_nat len_without_udh) data in
    do total <- ba_append (Z.of_nat (length chunks));
    Ok (map (fun ic => [udh_len; ie_id; udh_data_len] ++ refb ++ [total; Z.of_nat (fst ic) + 1] ++ snd ic)
            (combine (seq 0 (length chunks)) chunks)).

(* ---- the segmentation block of _dequeue_messages, default alphabet gsm0338, message with
   automatic encoding and strict error handling (the property's domain) ---- *)
Record segment := { seg_esm : Z;                 (* esm_class on the wire *)
                    seg_dc : Z;                  (* data_coding on the wire *)
                    seg_sm : list Z;             (* short_message octets *)
                    seg_sar : option (Z * Z * Z) (* sar_msg_ref_num, sar_segment_seqnum, sar_total_segments TLVs on the wire *)
                  }.

(* smpp_encode with encoding = None, default gsm0338, strict: GSM, else UCS2 (and encoding := 'ucs2') *)
Definition smpp_encode_auto (text : list Z) : res (list Z * Z) :=
  match gsm_encode Strict text with
  | Ok b => Ok (b, 0)
  | Err e => if e =? EXN_UnicodeEncodeError then (do b <- ucs2_encode text; Ok (b, 8)) else Err e
  end.

(* returns the wire segments of one SubmitSm(short_message=text, esm_class, auto_message_payload=False) *)
Definition prepare_segments (text : list Z) (esm_class : Z) (ref : Z) : res (list segment) :=
  if 0 <? (esm_class / 64) mod 2 then
    (* UDHI flag set: split_sms_udh with the detected format *)
    let enc := detect_format text in
    do parts <- split_sms_udh text (Some enc) ref;
    match parts with
    | [_] =>
      (* no splitting needed: UDHI flag removed, sent as an ordinary short message *)
      do bd <- smpp_encode_auto text;
      if 254 <? Z.of_nat (length (fst bd)) then Err EXN_ValueError
      else Ok [{| seg_esm := esm_class - 64; seg_dc := snd bd; seg_sm := fst bd; seg_sar := None |}]
    | _ =>
      (* UDHI set => the SAR TLVs appended to the clones are suppressed by pdu() *)
      Ok (map (fun p => {| seg_esm := esm_class; seg_dc := enc; seg_sm := p; seg_sar := None |}) parts)
    end
  else
    do bd <- smpp_encode_auto text;
    do parts <- split_sms text (if snd bd =? 0 then None else Some (snd bd));
    match parts with
    | [_] => Ok [{| seg_esm := esm_class; seg_dc := snd bd; seg_sm := fst bd; seg_sar := None |}]
    | _ =>
      let total := Z.of_nat (length parts) in
      if 255 <? total then Err EXN_StructError   (* sar_total_segments does not fit one octet in pdu() *)
      else Ok (map (fun ip => {| seg_esm := esm_class; seg_dc := snd bd; seg_sm := snd ip;
                                 seg_sar := Some (ref, Z.of_nat (fst ip) + 1, total) |})
                   (combine (seq 0 (length parts)) parts))
    end.

(* ---- serialisation for the harness ---- *)
Definition ser_parts (r : res (list (list Z))) : list Z :=
  match r with
  | Ok ps => 0 :: flat_map (fun p => Z.of_nat (length p) :: p) ps
  | Err e => [1; e]
  end.
Definition ser_segments (r : res (list segment)) : list Z :=
  match r with
  | Ok ss => 0 :: flat_map (fun s => [seg_esm s; seg_dc s;
                                      match seg_sar s with Some (a, b, c) => 1 | None => 0 end;
                                      match seg_sar s with Some (a, b, c) => a | None => 0 end;
                                      match seg_sar s with Some (a, b, c) => b | None => 0 end;
                                      match seg_sar s with Some (a, b, c) => c | None => 0 end;
                                      Z.of_nat (length (seg_sm s))] ++ seg_sm s) ss
  | Err e => [1; e]
  end.
