(* jsonutils.py + the from_json class methods of protocol.py.
   A JSON document is modelled as its value tree (json.dumps/json.loads, or orjson, are the trusted text layer).
   Two leaves stand for values whose text form is produced and parsed by the Python standard library:
     JIso c   - the string datetime.isoformat() of the datetime c   (read back by datetime.fromisoformat)
     JFloat d - the float timedelta.total_seconds() of d            (read back by timedelta(seconds=...))
   The harness checks both library round trips on every generated value. *)
From Coq Require Import ZArith List Bool String Ascii.
Import ListNotations.
Require Import AV.Generated.ExnOrder AV.Generated.SmppConsts AV.Model.Base AV.Model.TimeFmt AV.Model.Pdu.
Open Scope Z_scope.
Open Scope string_scope.
Open Scope list_scope.

Inductive json :=
| JNull | JBool (b : bool) | JInt (z : Z) | JFloat (d : tdelta) | JStr (s : list Z) | JIso (c : civil)
| JReal (x : Z)      (* any other float, by an exact integer representation (used for time.monotonic() stamps) *)
| JArr (l : list json) | JObj (l : list (string * json)).

Fixpoint jget (k : string) (o : list (string * json)) : option json :=
  match o with [] => None | (k', v) :: t => if String.eqb k k' then Some v else jget k t end.

Definition codes (s : string) : list Z := map (fun a => Z.of_nat (nat_of_ascii a)) (list_ascii_of_string s).

(* ---- application values held in message attributes ---- *)
Inductive value :=
| VInt (z : Z) | VStr (s : list Z) | VBool (b : bool) | VNone
| VPhone (number : list Z) (ton npi : Z) | VTime (t : timeval) | VOpts (l : list optparam).

(* how from_json obtains a constructor argument from json_object[key] *)
Inductive conv := CId | CEnum (members : list Z) | CPhone | CTime | COpts.

Record message := { m_cmd : Z; m_fields : list (string * value) }.

(* ---- json_encode: _json_default ---- *)
Definition opt_json (p : optparam) : json :=
  JObj [("tag", JInt (op_tag p));
        ("value", match op_val p with TInt v => JInt v | TStr s => JStr s | TBool b => JBool b end)].

Definition to_json_value (v : value) : json :=
  match v with
  | VInt z => JInt z | VStr s => JStr s | VBool b => JBool b | VNone => JNull
  | VPhone n t p => JObj [("number", JStr n); ("ton", JInt t); ("npi", JInt p)]
  | VTime TNone => JNull | VTime (TDate c) => JIso c | VTime (TDelta d) => JFloat d
  | VOpts l => JArr (map opt_json l)
  end.

(* ---- class table: command id, SmppCommand member name, constructor arguments read by from_json ---- *)
Definition trackable : list (string * conv) := [("log_id", CId); ("extra_data", CId)].
Definition head : list (string * conv) := [("sequence_num", CId); ("command_status", CEnum SmppCommandStatus_values)].
Definition sm_fields : list (string * conv) :=
  head ++ trackable ++
  [("short_message", CId); ("source", CPhone); ("destination", CPhone); ("service_type", CId); ("esm_class", CId);
   ("protocol_id", CId); ("priority_flag", CId); ("schedule_delivery_time", CTime); ("validity_period", CTime);
   ("registered_delivery", CId); ("replace_if_present_flag", CId); ("encoding", CId); ("sm_default_msg_id", CId);
   ("message_payload", CId); ("optional_params", COpts); ("auto_message_payload", CId); ("error_handling", CId)].
Definition smresp_fields : list (string * conv) := head ++ trackable ++ [("message_id", CId)].
Definition bind_fields : list (string * conv) :=
  head ++ [("system_id", CId); ("password", CId); ("system_type", CId); ("interface_version", CId);
           ("addr_ton", CEnum TON_values); ("addr_npi", CEnum NPI_values); ("address_range", CId)].
Definition bindresp_fields : list (string * conv) := head ++ [("system_id", CId); ("sc_interface_version", CId)].

Definition class_table : list (Z * (string * list (string * conv))) :=
  [(SmppCommand_SUBMIT_SM, ("SUBMIT_SM", sm_fields)); (SmppCommand_DELIVER_SM, ("DELIVER_SM", sm_fields));
   (SmppCommand_SUBMIT_SM_RESP, ("SUBMIT_SM_RESP", smresp_fields)); (SmppCommand_DELIVER_SM_RESP, ("DELIVER_SM_RESP", smresp_fields));
   (SmppCommand_BIND_TRANSCEIVER, ("BIND_TRANSCEIVER", bind_fields)); (SmppCommand_BIND_TRANSMITTER, ("BIND_TRANSMITTER", bind_fields));
   (SmppCommand_BIND_RECEIVER, ("BIND_RECEIVER", bind_fields));
   (SmppCommand_BIND_TRANSCEIVER_RESP, ("BIND_TRANSCEIVER_RESP", bindresp_fields));
   (SmppCommand_BIND_TRANSMITTER_RESP, ("BIND_TRANSMITTER_RESP", bindresp_fields));
   (SmppCommand_BIND_RECEIVER_RESP, ("BIND_RECEIVER_RESP", bindresp_fields));
   (SmppCommand_ENQUIRE_LINK, ("ENQUIRE_LINK", head)); (SmppCommand_ENQUIRE_LINK_RESP, ("ENQUIRE_LINK_RESP", head));
   (SmppCommand_UNBIND, ("UNBIND", head)); (SmppCommand_UNBIND_RESP, ("UNBIND_RESP", head));
   (SmppCommand_GENERIC_NACK, ("GENERIC_NACK", head ++ trackable))].

Fixpoint class_by_cmd (cmd : Z) (t : list (Z * (string * list (string * conv)))) :=
  match t with [] => None | (c, r) :: t' => if (c =? cmd)%Z then Some r else class_by_cmd cmd t' end.
(* SmppCommand[name] *)
Fixpoint class_by_name (nm : list Z) (t : list (Z * (string * list (string * conv)))) : option Z :=
  match t with [] => None | (c, (n, _)) :: t' => if list_eqb (codes n) nm then Some c else class_by_name nm t' end.

Definition to_json (m : message) : res json :=
  match class_by_cmd (m_cmd m) class_table with
  | None => Err EXN_KeyError
  | Some (name, _) =>
    Ok (JObj (("__smpp_command__", JStr (codes name)) :: map (fun fv => (fst fv, to_json_value (snd fv))) (m_fields m)))
  end.

(* ---- json_decode / dict_to_smpp_message / from_json ---- *)
Definition scalar_of (j : json) : res value :=
  match j with
  | JNull => Ok VNone | JBool b => Ok (VBool b) | JInt z => Ok (VInt z) | JStr s => Ok (VStr s)
  | _ => Err EXN_Unmodelled
  end.

Definition enum_of (ms : list Z) (j : json) : res Z :=
  match j with JInt z => if mem z ms then Ok z else Err EXN_ValueError | _ => Err EXN_ValueError end.

Definition opt_of (j : json) : res optparam :=
  match j with
  | JObj o =>
    match jget "tag" o with
    | None => Err EXN_KeyError
    | Some jt =>
      match jget "value" o with
      | None => Err EXN_KeyError
      | Some jv =>
        match jt with
        | JInt tag =>
          (* OptionalParam.__post_init__: the value must have the type the tag calls for *)
          match tag_data_type tag, jv with
          | TyInt, JInt v => Ok {| op_tag := tag; op_val := TInt v |}
          | TyInt, JBool b => Err EXN_Unmodelled             (* bool is an int in Python: accepted, kept as bool *)
          | TyStr, JStr s => if (tag =? TAG_MESSAGE_PAYLOAD)%Z then Err EXN_ValueError else Ok {| op_tag := tag; op_val := TStr s |}
          | TyBool, JBool b => Ok {| op_tag := tag; op_val := TBool b |}
          | _, _ => Err EXN_ValueError
          end
        | _ => Err EXN_ValueError
        end
      end
    end
  | _ => Err EXN_TypeError
  end.

Fixpoint mapM {A B} (f : A -> res B) (l : list A) : res (list B) :=
  match l with [] => Ok [] | x :: t => do y <- f x; do r <- mapM f t; Ok (y :: r) end.

Definition of_json_value (c : conv) (j : json) : res value :=
  match c with
  | CId => scalar_of j
  | CEnum ms => do z <- enum_of ms j; Ok (VInt z)
  | CPhone =>
    match j with
    | JObj o =>
      match jget "number" o with
      | None => Err EXN_KeyError
      | Some jn =>
        match jget "ton" o with
        | None => Err EXN_KeyError
        | Some jt => do t <- enum_of TON_values jt;
          match jget "npi" o with
          | None => Err EXN_KeyError
          | Some jp => do p <- enum_of NPI_values jp;
            match jn with JStr n => Ok (VPhone n t p) | _ => Err EXN_ValueError end
          end
        end
      end
    | _ => Err EXN_TypeError
    end
  | CTime =>
    match j with
    | JIso c => Ok (VTime (TDate c))
    | JStr _ => Err EXN_ValueError          (* datetime.fromisoformat on another string *)
    | JFloat d => Ok (VTime (TDelta d))
    | _ => Ok (VTime TNone)
    end
  | COpts =>
    match j with
    | JArr (x :: t) => do l <- mapM opt_of (x :: t); Ok (VOpts l)
    | JArr [] | JNull | JBool false | JInt 0 | JStr [] => Ok (VOpts [])
    | _ => Err EXN_TypeError
    end
  end.

Definition read_field (o : list (string * json)) (kc : string * conv) : res (string * value) :=
  match jget (fst kc) o with
  | None => Err EXN_KeyError
  | Some j => do v <- of_json_value (snd kc) j; Ok (fst kc, v)
  end.

Definition of_json (j : json) : res message :=
  match j with
  | JObj o =>
    match jget "__smpp_command__" o with
    | None | Some JNull | Some (JStr []) | Some (JBool false) | Some (JInt 0) => Err EXN_ValueError
    | Some (JStr nm) =>
      match class_by_name nm class_table with
      | None => Err EXN_KeyError
      | Some cmd =>
        match class_by_cmd cmd class_table with          (* MESSAGE_TYPE_MAP[smpp_command].from_json *)
        | None => Err EXN_KeyError
        | Some (_, spec) => do fs <- mapM (read_field o) spec; Ok {| m_cmd := cmd; m_fields := fs |}
        end
      end
    | Some _ => Err EXN_KeyError
    end
  | _ => Err EXN_ValueError
  end.

(* ---- serialisation for the harness ---- *)
Definition ser_civil (c : civil) : list Z :=
  [c_year c; c_month c; c_day c; c_hour c; c_minute c; c_second c; c_us c] ++ match c_off c with None => [0; 0] | Some o => [1; o] end.
Definition ser_value (v : value) : list Z :=
  match v with
  | VInt z => [1; z] | VStr s => 2 :: Z.of_nat (List.length s) :: s | VBool b => [3; if b then 1 else 0] | VNone => [4]
  | VPhone n t p => (5 :: Z.of_nat (List.length n) :: n) ++ [t; p]
  | VTime TNone => [6] | VTime (TDate c) => 7 :: ser_civil c | VTime (TDelta d) => [8; td_days d; td_seconds d; td_us d]
  | VOpts l => 9 :: Z.of_nat (List.length l) :: List.concat (map (fun p => op_tag p :: match op_val p with
                                                                        | TInt v => [1; v] | TStr s => 2 :: Z.of_nat (List.length s) :: s
                                                                        | TBool b => [3; if b then 1 else 0] end) l)
  end.
Definition ser_message (m : message) : list Z :=
  m_cmd m :: Z.of_nat (List.length (m_fields m)) :: List.concat (map (fun fv => (Z.of_nat (List.length (codes (fst fv))) :: codes (fst fv)) ++ ser_value (snd fv)) (m_fields m)).

Fixpoint ser_json (j : json) : list Z :=
  match j with
  | JNull => [0] | JBool b => [1; if b then 1 else 0] | JInt z => [2; z] | JFloat d => [3; td_days d; td_seconds d; td_us d]
  | JStr s => 4 :: Z.of_nat (List.length s) :: s | JIso c => 5 :: ser_civil c | JReal x => [8; x]
  | JArr l => 6 :: Z.of_nat (List.length l) :: List.concat (map ser_json l)
  | JObj l => 7 :: Z.of_nat (List.length l) :: List.concat (map (fun kv => (Z.of_nat (List.length (codes (fst kv))) :: codes (fst kv)) ++ ser_json (snd kv)) l)
  end.

Definition ser_to_json (m : message) : list Z := match to_json m with Ok j => 0 :: ser_json j | Err e => [1; e] end.
Definition ser_of_json (j : json) : list Z := match of_json j with Ok m => 0 :: ser_message m | Err e => [1; e] end.
Definition ser_roundtrip (m : message) : list Z :=
  match to_json m with Ok j => ser_of_json j | Err e => [2; e] end.
