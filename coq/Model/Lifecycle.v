(* start()/stop() of esme.py and SimpleExponentialBackoff of retrytimer.py: the connect-cycle loop as a transition
   system over cycle outcomes, with the back-off timer and the shutting-down flag. *)
From Coq Require Import ZArith List Bool.
Import ListNotations.
Require Import AV.Generated.ExnOrder AV.Generated.Handled AV.Model.Base AV.Model.Recv.
Open Scope Z_scope.

(* ---- SimpleExponentialBackoff (milliseconds) ---- *)
Record timer := { t_min : Z; t_max : Z; t_next : Z }.
Definition t_init (min_delay max_increases : Z) : timer :=
  {| t_min := min_delay; t_max := min_delay * 2 ^ max_increases; t_next := 0 |}.
(* wait(): the delay slept, and the timer afterwards *)
Definition t_wait (t : timer) : Z * timer :=
  if t_next t =? 0 then (0, {| t_min := t_min t; t_max := t_max t; t_next := t_min t |})
  else (t_next t, if t_next t <? t_max t then {| t_min := t_min t; t_max := t_max t; t_next := 2 * t_next t |} else t).
Definition t_reset (t : timer) : timer := {| t_min := t_min t; t_max := t_max t; t_next := 0 |}.

(* ---- one connect cycle ---- *)
Inductive cycle :=
| CFailed (e : Z)                      (* connect() raised e: refused, timed out, bind rejected, EOF, ... *)
| CBound (ended : list (option Z)).    (* bound; the session tasks, in the order _end_task awaits them, ended by returning
                                          (None) or raising (Some e) *)

Inductive ending := Running | Returned | Raised (e : Z).

(* what the try block of the cycle does with an exception: caught by an except clause of start() or not *)
Definition cycle_escape (c : cycle) : option Z :=
  match c with
  | CFailed e => if start_catches e then None else Some e
  | CBound ended =>
    (* _end_task swallows what it tolerates; the first other exception propagates into the same try block *)
    match filter (fun x => match x with Some e => negb (end_task_tolerates e) | None => false end) ended with
    | Some e :: _ => if start_catches e then None else Some e
    | _ => None
    end
  end.
Definition cycle_bound (c : cycle) : bool := match c with CBound _ => true | CFailed _ => false end.

(* the loop: each cycle comes with the value of _is_shutting_down at the check after the cycle and at the check after
   retry_timer.wait(); the result lists the delay slept before each further attempt *)
Fixpoint run (t : timer) (cs : list (cycle * bool * bool)) : list Z * ending :=
  match cs with
  | [] => ([], Running)
  | (c, stop1, stop2) :: rest =>
    let t1 := if cycle_bound c then t_reset t else t in       (* retry_timer.reset() right after connect() succeeded *)
    match cycle_escape c with
    | Some e => ([], Raised e)
    | None =>
      if stop1 then ([], Returned)
      else let '(d, t2) := t_wait t1 in
           if stop2 then ([d], Returned)
           else let '(ds, e) := run t2 rest in (d :: ds, e)
    end
  end.

(* the faults a peer or the network can cause, as exception classes *)
Definition fault_classes : list Z :=
  [EXN_ConnectionError; EXN_TimeoutError; EXN_SmppError; EXN_IncompleteReadError; EXN_OSError; EXN_ValueError].
Definition is_fault (e : Z) : bool := existsb (exn_is e) fault_classes.
Definition fault_cycle (c : cycle) : bool :=
  match c with
  | CFailed e => is_fault e
  | CBound ended => forallb (fun x => match x with Some e => is_fault e | None => true end) ended
  end.

(* the k-th wait after a reset (k = 1, 2, ...) *)
Definition kth_delay (t : timer) (k : Z) : Z := if k =? 1 then 0 else Z.min (t_min t * 2 ^ (k - 2)) (t_max t).

Definition ser_run (min_delay max_increases : Z) (cs : list (cycle * bool * bool)) : list Z :=
  let '(ds, e) := run (t_init min_delay max_increases) cs in
  Z.of_nat (length ds) :: ds ++ match e with Running => [0] | Returned => [1] | Raised x => [2; x] end.
