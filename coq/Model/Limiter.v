(* Executable model of ratelimiter.py (SimpleRateLimiter, after fix b4cec97) and throttle.py
   (SimpleThrottleHandler) over exact rationals with an explicit clock. Python computes in
   binary64; the correspondence harness only uses values on which binary64 is exact. *)
From Coq Require Import ZArith QArith Qround List Bool.
Import ListNotations.
Require Import AV.Generated.ExnOrder AV.Model.Base.
Open Scope Q_scope.

Definition qlt (a b : Q) : bool := negb (Qle_bool b a).
Definition qmin (a b : Q) : Q := if Qle_bool a b then a else b.
Definition qmax (a b : Q) : Q := if Qle_bool a b then b else a.

(* ---- SimpleRateLimiter ---- *)
Record lim := { l_rate : Q; l_max : Q; l_tokens : Q; l_upd : Q; l_deliv : Z }.

(* __init__(send_rate) at clock reading now *)
Definition lim_init (rate now : Q) : lim :=
  {| l_rate := rate; l_max := qmax rate 1; l_tokens := rate; l_upd := now; l_deliv := 0 |}.

(* _add_new_tokens at clock reading now (after the fix: a clock that did not advance adds nothing; the pinned code divided by the
   elapsed time for its statistics and raised ZeroDivisionError) *)
Definition add_new_tokens (s : lim) (now : Q) : res lim :=
  let t := now - l_upd s in
  let nw := t * l_rate s in
  if qlt 1 nw then
    Ok {| l_rate := l_rate s; l_max := l_max s; l_tokens := qmin (l_tokens s + nw) (l_max s);
          l_upd := now; l_deliv := 0 |}
  else Ok s.

(* one clock reading inside limit(): add tokens, then either pass (true) or sleep (false) *)
Definition lim_step (s : lim) (now : Q) : res (lim * bool) :=
  match add_new_tokens s now with
  | Err e => Err e
  | Ok s1 =>
    if qlt (l_tokens s1) 1 then Ok (s1, false)
    else Ok ({| l_rate := l_rate s1; l_max := l_max s1; l_tokens := l_tokens s1 - 1;
                l_upd := l_upd s1; l_deliv := (l_deliv s1 + 1)%Z |}, true)
  end.

(* the sender is the only caller, so successive limit() calls consume successive clock readings:
   the outcome (passed?) of every reading *)
Fixpoint lim_run (s : lim) (readings : list Q) : res (lim * list bool) :=
  match readings with
  | [] => Ok (s, [])
  | now :: rest =>
    match lim_step s now with
    | Err e => Err e
    | Ok (s1, p) => match lim_run s1 rest with Err e => Err e | Ok (s2, ps) => Ok (s2, p :: ps) end
    end
  end.

(* ---- SimpleThrottleHandler ---- *)
Record thr := { t_non : Z; t_thr : Z; t_upd : Q;
                t_period : Q; t_sample : Q; t_deny : Q }.

(* round(x, 2) on an exact rational: nearest multiple of 1/100, ties to even *)
Definition round2 (x : Q) : Q :=
  let y := x * 100 in
  let f := Qfloor y in
  let d := y - inject_Z f in
  let n := if qlt d (1 # 2) then f
           else if qlt (1 # 2) d then (f + 1)%Z
           else if Z.even f then f else (f + 1)%Z in
  inject_Z n / 100.

(* percent_throttles (after the fix: 0.0 when no response has been counted) *)
Definition percent_throttles (s : thr) : res Q :=
  let total := (t_non s + t_thr s)%Z in
  if qlt (inject_Z total) (t_sample s) then Ok 0
  else if (total =? 0)%Z then Ok 0
  else Ok (round2 (inject_Z (t_thr s) / inject_Z total * 100)).

(* allow_request at clock reading now: the decision is taken on the exact share (percent_throttles, rounded to two decimals, only
   goes to the log): allowed unless enough responses were counted and  throttled * 100 > deny_request_at * total *)
Definition allow_request (s : thr) (now : Q) : res (thr * bool) :=
  match percent_throttles s with
  | Err e => Err e
  | Ok _ =>
    let total := (t_non s + t_thr s)%Z in
    let s' := if qlt (t_period s) (now - t_upd s)
              then {| t_non := 0; t_thr := 0; t_upd := now; t_period := t_period s; t_sample := t_sample s; t_deny := t_deny s |}
              else s in
    Ok (s', qlt (inject_Z total) (t_sample s) || (total =? 0)%Z || Qle_bool (inject_Z (t_thr s * 100)) (t_deny s * inject_Z total))
  end.

Definition throttled (s : thr) : thr :=
  {| t_non := t_non s; t_thr := (t_thr s + 1)%Z; t_upd := t_upd s; t_period := t_period s; t_sample := t_sample s; t_deny := t_deny s |}.
Definition not_throttled (s : thr) : thr :=
  {| t_non := (t_non s + 1)%Z; t_thr := t_thr s; t_upd := t_upd s; t_period := t_period s; t_sample := t_sample s; t_deny := t_deny s |}.

Inductive thr_op := TAllow (now : Q) | TThrottled | TNot.

(* outputs of the allow_request calls; a call that raises ends the run with marker 2 *)
Fixpoint thr_run (s : thr) (ops : list thr_op) : list Z :=
  match ops with
  | [] => []
  | TAllow now :: t =>
    match allow_request s now with
    | Ok (s', b) => (if b then 1%Z else 0%Z) :: thr_run s' t
    | Err e => [2%Z; e]
    end
  | TThrottled :: t => thr_run (throttled s) t
  | TNot :: t => thr_run (not_throttled s) t
  end.

(* ---- serialisation ---- *)
Definition ser_q (q : Q) : list Z := let r := Qred q in [Qnum r; Zpos (Qden r)].
Definition ser_lim_run (rate t0 : Q) (readings : list Q) : list Z :=
  match lim_run (lim_init rate t0) readings with
  | Err e => [1%Z; e]
  | Ok (s, ps) => (0%Z :: map (fun b : bool => if b then 1%Z else 0%Z) ps) ++ [(-1)%Z] ++ ser_q (l_tokens s) ++ ser_q (l_upd s)
  end.
Definition ser_thr_run (period sample deny t0 : Q) (ops : list thr_op) : list Z :=
  thr_run {| t_non := 0; t_thr := 0; t_upd := t0; t_period := period; t_sample := sample; t_deny := deny |} ops.
