(* Executable model of SubmitSm.datetime_to_smpp_time / smpp_time_to_datetime (protocol.py).
   Strings are lists of code points. *)
From Coq Require Import ZArith List Bool.
Import ListNotations.
Require Import AV.Generated.ExnOrder AV.Model.Base.
Open Scope Z_scope.

(* a Python datetime: civil fields + utcoffset in seconds (None = naive) *)
Record civil := { c_year : Z; c_month : Z; c_day : Z; c_hour : Z; c_minute : Z; c_second : Z;
                  c_us : Z; c_off : option Z }.
(* a normalised Python timedelta *)
Record tdelta := { td_days : Z; td_seconds : Z; td_us : Z }.

Inductive timeval := TNone | TDate (c : civil) | TDelta (d : tdelta).

Definition digit (n : Z) : Z := 48 + n.

(* decimal digits of a non-negative number, most significant first (fuel = 20 digits) *)
Fixpoint digits_fuel (fuel : nat) (n : Z) (acc : list Z) : list Z :=
  match fuel with
  | O => acc
  | S f => if n <? 10 then digit n :: acc else digits_fuel f (n / 10) (digit (n mod 10) :: acc)
  end.
Definition digits (n : Z) : list Z := digits_fuel 20 n [].

(* '{:02d}'.format(n) *)
Definition fmt02 (n : Z) : list Z :=
  if 0 <=? n then (if n <? 10 then [48; digit n] else digits n)
  else 45 :: digits (- n).

(* strftime('%y'): two digits of year mod 100 (glibc); other fields are two digits for valid datetimes *)
Definition two (n : Z) : list Z := [digit (n / 10); digit (n mod 10)].

(* datetime_to_smpp_time *)
Definition time_to_smpp (t : timeval) : res (list Z) :=
  match t with
  | TNone => Ok []
  | TDate c =>
    let tenth := digits (c_us c / 100000) in
    let '(offs, prefix) :=
        match c_off c with
        | None => ([48; 48], 43)
        | Some o => if o =? 0 then ([48; 48], 43)
                    else (fmt02 (Z.abs o / 900), if o <? 0 then 45 else 43)
        end in
    Ok (two (c_year c mod 100) ++ two (c_month c) ++ two (c_day c) ++ two (c_hour c)
        ++ two (c_minute c) ++ two (c_second c) ++ tenth ++ offs ++ [prefix])
  | TDelta d =>
    (* time_object > timedelta(weeks=63) compares (days, seconds, microseconds) lexicographically *)
    if (441 <? td_days d) || ((td_days d =? 441) && ((0 <? td_seconds d) || (0 <? td_us d)))
    then Err EXN_ValueError
    else
      let total_days := td_days d in
      let years := fmt02 (total_days / 365) in
      let rem := total_days mod 365 in
      let months := fmt02 (rem / 30) in
      let days := fmt02 (rem mod 30) in
      let ts := td_seconds d in
      let hours := fmt02 (ts / 3600) in
      let rs := ts mod 3600 in
      let minutes := fmt02 (rs / 60) in
      let seconds := fmt02 (rs mod 60) in
      Ok (years ++ months ++ days ++ hours ++ minutes ++ seconds ++ [48; 48; 48; 82])
  end.

(* ---- int(str) on ASCII strings: whitespace stripped, optional sign, digits with single
   underscores between digits; None = ValueError *)
Definition is_space (c : Z) : bool := ((9 <=? c) && (c <=? 13)) || (c =? 32). (* ASCII fast path of int(): C isspace *)
Definition is_digit (c : Z) : bool := (48 <=? c) && (c <=? 57).

Fixpoint lstrip (s : list Z) : list Z :=
  match s with c :: t => if is_space c then lstrip t else s | [] => [] end.
Definition strip (s : list Z) : list Z := rev (lstrip (rev (lstrip s))).

(* digits with underscores: prev_digit says whether the previous char was a digit *)
Fixpoint parse_digits (s : list Z) (acc : Z) (prev_digit : bool) : option Z :=
  match s with
  | [] => if prev_digit then Some acc else None
  | c :: t =>
    if is_digit c then parse_digits t (acc * 10 + (c - 48)) true
    else if (c =? 95) && prev_digit then
           match t with
           | d :: _ => if is_digit d then parse_digits t acc false else None
           | [] => None
           end
         else None
  end.

Definition py_int (s : list Z) : option Z :=
  match strip s with
  | [] => None
  | 43 :: t => parse_digits t 0 false
  | 45 :: t => option_map Z.opp (parse_digits t 0 false)
  | t => parse_digits t 0 false
  end.

Definition slice (a b : nat) (s : list Z) : list Z := firstn (b - a) (skipn a s).

Definition is_leap (y : Z) : bool := ((y mod 4 =? 0) && negb (y mod 100 =? 0)) || (y mod 400 =? 0).
Definition days_in_month (y m : Z) : Z :=
  if m =? 2 then (if is_leap y then 29 else 28)
  else if (m =? 4) || (m =? 6) || (m =? 9) || (m =? 11) then 30 else 31.

(* the checks of the datetime constructor *)
Definition valid_datetime (y mo d h mi s us : Z) : bool :=
  (1 <=? y) && (y <=? 9999) && (1 <=? mo) && (mo <=? 12) && (1 <=? d) && (d <=? days_in_month y mo)
  && (0 <=? h) && (h <=? 23) && (0 <=? mi) && (mi <=? 59) && (0 <=? s) && (s <=? 59)
  && (0 <=? us) && (us <=? 999999).

Definition opt_res {A} (o : option A) : res A := match o with Some a => Ok a | None => Err EXN_ValueError end.

(* timedelta(days=d, seconds=s) normalisation; OverflowError beyond 999999999 days *)
Definition mk_tdelta (d s : Z) : res timeval :=
  let d' := d + s / 86400 in
  if (Z.abs d' <=? 999999999) then Ok (TDelta {| td_days := d'; td_seconds := s mod 86400; td_us := 0 |})
  else Err EXN_OverflowError.

(* smpp_time_to_datetime *)
Definition smpp_to_time (s : list Z) : res timeval :=
  match s with
  | [] => Ok TNone
  | _ =>
    do year <- opt_res (py_int (slice 0 2 s));
    do month <- opt_res (py_int (slice 2 4 s));
    do day <- opt_res (py_int (slice 4 6 s));
    do hour <- opt_res (py_int (slice 6 8 s));
    do minute <- opt_res (py_int (slice 8 10 s));
    do second <- opt_res (py_int (slice 10 12 s));
    if last s 0 =? 82 then
      mk_tdelta (year * 365 + month * 30 + day) (hour * 3600 + minute * 60 + second)
    else
      do tenth <- opt_res (py_int (slice 12 13 s));
      do nn <- opt_res (py_int (slice 13 15 s));
      let offm := nn * 15 in
      (* an offset of a day or more is refused: datetime cannot work with it (utcoffset() raises) *)
      if 1440 <=? Z.abs offm then Err EXN_ValueError else
      let offm := if list_eqb (slice 15 16 s) [45] then - offm else offm in
      (* FixedOffset(minutes): timedelta(minutes=..) overflows beyond 999999999 days *)
      if negb (Z.abs (offm / 1440) <=? 999999999) then Err EXN_OverflowError
      else if valid_datetime (2000 + year) month day hour minute second (tenth * 100000)
      then Ok (TDate {| c_year := 2000 + year; c_month := month; c_day := day; c_hour := hour;
                        c_minute := minute; c_second := second; c_us := tenth * 100000;
                        c_off := Some (offm * 60) |})
      else Err EXN_ValueError
  end.

(* serialisation for the harness *)
(* FixedOffset.from_timezone(offset_str) (utils.py:63): the time-zone part of an ISO 8601 datetime, '+hhmm' or '-hhmm' (empty = UTC),
   to the UTC offset in minutes *)
Definition from_timezone (s : list Z) : res Z :=
  match s with
  | [] => Ok 0
  | _ =>
    let sign := if existsb (Z.eqb 43) s then 1 else -1 in
    match py_int (slice 1 3 s) with
    | None => Err EXN_ValueError
    | Some h =>
      match py_int (skipn 3 s) with
      | None => Err EXN_ValueError
      | Some m => Ok (sign * (m + h * 60))
      end
    end
  end.
Definition ser_res_z (r : res Z) : list Z := match r with Ok z => [0; z] | Err e => [1; e] end.

Definition ser_time (t : timeval) : list Z :=
  match t with
  | TNone => [0]
  | TDate c => [1; c_year c; c_month c; c_day c; c_hour c; c_minute c; c_second c; c_us c;
                match c_off c with None => 0 | Some _ => 1 end; match c_off c with None => 0 | Some o => o end]
  | TDelta d => [2; td_days d; td_seconds d; td_us d]
  end.
Definition ser_res_time (r : res timeval) : list Z :=
  match r with Ok t => 0 :: ser_time t | Err e => [1; e] end.
