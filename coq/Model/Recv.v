(* The receiver side of esme.py: framing (_get_pdu), the reaction of _receive_data/_handle_request/_handle_response
   to one PDU, and how start() treats the way the Receiver task ends.  The correlator calls made after a PDU has
   parsed are the subject of C02/C09/C14; here they are steps that do not raise. *)
From Coq Require Import ZArith List Bool.
Import ListNotations.
Require Import AV.Generated.ExnOrder AV.Generated.SmppConsts AV.Generated.Handled
               AV.Model.Base AV.Model.Codec AV.Model.Split AV.Model.TimeFmt AV.Model.Receipt AV.Model.Pdu.
Open Scope Z_scope.

(* ---- exception classes ---- *)
Fixpoint supers (e : Z) (t : list (Z * list Z)) : list Z :=
  match t with [] => [] | (k, s) :: r => if k =? e then s else supers e r end.
Definition exn_is (e cls : Z) : bool := mem cls (supers e exn_superclasses).     (* issubclass *)
Definition caught_by (clauses : list (list Z)) (e : Z) : bool := existsb (fun cl => existsb (exn_is e) cl) clauses.

(* except (ValueError, KeyError, StructError) around from_pdu + parse_receipt *)
Definition request_parse_caught (e : Z) : bool := caught_by except_handle_request_0 e.
Definition response_parse_caught (e : Z) : bool := caught_by except_handle_response_0 e.
(* what _end_task swallows when it awaits a finished task, and what the connect cycle of start() catches *)
Definition end_task_tolerates (e : Z) : bool := caught_by except_end_task_0 e.
Definition start_catches (e : Z) : bool := caught_by except_start_1 e.

(* ---- one PDU ---- *)
Definition is_request (cmd : Z) : bool := mem cmd (map fst command_response_map).

Definition receipted_id (opts : list optparam) : option (list Z) :=
  match filter (fun p => op_tag p =? TAG_RECEIPTED_MESSAGE_ID) opts with
  | {| op_val := TStr s |} :: _ => Some s
  | _ => None
  end.

(* message_class.from_pdu(...) followed, for a deliver_sm, by parse_receipt() *)
Definition decode_request (default : enc) (pdu : list Z) (h : header) : res message :=
  do m <- decode default pdu h;
  match m with
  | MSm cmd sm =>
    if cmd =? SmppCommand_DELIVER_SM
    then (* the receipt text is taken from short_message or, when that is empty, from message_payload *)
         (do _ <- parse_receipt (s_esm sm) (match s_short sm with [] => s_payload sm | t => t end) (receipted_id (s_opts sm)); Ok m)
    else Ok m
  | _ => Ok m
  end.

Inductive outcome := OContinue | OReturn | ORaise (e : Z).
Record reaction := { rx_sent : list (list Z);      (* PDUs written in answer *)
                     rx_parsed : bool;             (* the received hook gets a message object (else None / raw bytes) *)
                     rx_out : outcome }.

Definition bytes_of (r : res (list Z)) : list Z := match r with Ok b => b | Err _ => [] end.
Definition nack_pdu (seq status : Z) : list Z := bytes_of (encode EncGsm (MPlain SmppCommand_GENERIC_NACK seq status)).
(* response_class(header.sequence_num).pdu() *)
Definition response_pdu (cmd seq : Z) : list Z :=
  match lookup cmd command_response_map with
  | Some rc => bytes_of (encode EncGsm (if rc =? SmppCommand_DELIVER_SM_RESP then MSmResp rc seq 0 [] else MPlain rc seq 0))
  | None => []
  end.

Definition status_invalid_command : Z := nth 0 request_nack_statuses 0.
Definition status_system_error : Z := nth 1 request_nack_statuses 0.

Definition react (default : enc) (pdu : list Z) (h : header) : reaction :=
  let cmd := h_cmd h in
  let seq := h_seq h in
  if is_request cmd then
    if negb (mem cmd handled_request_commands)
    then {| rx_sent := [nack_pdu seq status_invalid_command]; rx_parsed := false; rx_out := OContinue |}
    else match decode_request default pdu h with
         | Err e => if request_parse_caught e
                    then {| rx_sent := [nack_pdu seq status_system_error]; rx_parsed := false; rx_out := OContinue |}
                    else {| rx_sent := []; rx_parsed := false; rx_out := ORaise e |}
         | Ok _ => {| rx_sent := [response_pdu cmd seq]; rx_parsed := true;
                      rx_out := if cmd =? SmppCommand_UNBIND then OReturn else OContinue |}
         end
  else if negb (mem cmd handled_response_commands)
       then {| rx_sent := []; rx_parsed := false; rx_out := OContinue |}
       else match decode EncGsm pdu h with          (* from_pdu(pdu, header): responses carry no text *)
            | Err e => if response_parse_caught e
                       then {| rx_sent := []; rx_parsed := false; rx_out := OContinue |}
                       else {| rx_sent := []; rx_parsed := false; rx_out := ORaise e |}
            | Ok _ => {| rx_sent := []; rx_parsed := true; rx_out := OContinue |}
            end.

(* ---- the byte stream ---- *)
Inductive ending :=
| EWaiting                (* readexactly waits for more bytes: the keep-alive logic decides (C16) *)
| EReturn                 (* unbind answered: the task returns, start() reconnects *)
| ERaise (e : Z).         (* the Receiver task ends with this exception *)

(* _get_pdu + the loop of _receive_data over everything the SMSC has sent so far; eof = the peer closed *)
Fixpoint run_stream (fuel : nat) (default : enc) (stream : list Z) (eof : bool) : list reaction * ending :=
  match fuel with
  | O => ([], EWaiting)
  | S f =>
    if Nat.ltb (length stream) 16 then ([], if eof then ERaise EXN_IncompleteReadError else EWaiting)
    else match parse_header (firstn 16 stream) with
         | Err e => ([], ERaise e)
         | Ok h =>
           if h_len h <? 16 then ([], ERaise EXN_ValueError)        (* readexactly(negative) *)
           else if Z.of_nat (length stream) <? h_len h
                then ([], if eof then ERaise EXN_IncompleteReadError else EWaiting)
                else let pdu := firstn (Z.to_nat (h_len h)) stream in
                     let r := react default pdu h in
                     match rx_out r with
                     | OContinue => let '(rs, e) := run_stream f default (skipn (Z.to_nat (h_len h)) stream) eof in (r :: rs, e)
                     | OReturn => ([r], EReturn)
                     | ORaise e => ([r], ERaise e)
                     end
         end
  end.

(* start(): the first finished task is awaited by _end_task; an exception _end_task does not swallow propagates
   into the connect-cycle try block, and what that does not catch leaves start() *)
Definition start_survives (e : ending) : bool :=
  match e with
  | EWaiting | EReturn => true
  | ERaise x => end_task_tolerates x || start_catches x
  end.

(* ---- serialisation for the harness ---- *)
Definition ser_reaction (r : reaction) : list Z :=
  [Z.of_nat (length (rx_sent r))] ++ concat (map (fun p => Z.of_nat (length p) :: p) (rx_sent r))
  ++ [if rx_parsed r then 1 else 0] ++ match rx_out r with OContinue => [0] | OReturn => [1] | ORaise e => [2; e] end.
Definition ser_stream (default : enc) (stream : list Z) (eof : bool) : list Z :=
  let '(rs, e) := run_stream (S (length stream)) default stream eof in
  Z.of_nat (length rs) :: concat (map ser_reaction rs)
  ++ match e with EWaiting => [0] | EReturn => [1] | ERaise x => [2; x] end ++ [if start_survives e then 1 else 0].

(* what the harness can observe of a whole stream: PDUs written in order, number of PDUs handled, how the task ended *)
Definition ser_stream_flat (default : enc) (stream : list Z) (eof : bool) : list Z :=
  let '(rs, e) := run_stream (S (length stream)) default stream eof in
  let sent := concat (map rx_sent rs) in
  [Z.of_nat (length rs); Z.of_nat (length sent)] ++ concat (map (fun p => Z.of_nat (length p) :: p) sent)
  ++ match e with EWaiting => [0] | EReturn => [1] | ERaise x => [2; x] end ++ [if start_survives e then 1 else 0].
