(* PersistingDict of correlator.py: (1) the file-write protocol of _save and what a crash at any point leaves,
   (2) write-through of dictionary operations and in-place updates, (3) the JSON form of the five stores and
   their revival by __init__/_process_object. *)
From Coq Require Import ZArith List Bool String Ascii.
Import ListNotations.
Require Import AV.Generated.ExnOrder AV.Generated.SmppConsts AV.Model.Base AV.Model.TimeFmt AV.Model.Pdu AV.Model.Json.
Open Scope Z_scope.
Open Scope string_scope.
Open Scope list_scope.

(* ================= 1. file protocol ================= *)
Record fs := { f_main : option (list Z); f_tmp : option (list Z) }.

Inductive io :=
| IoOpenTmp                 (* open(file + '.tmp', 'w'): creates or truncates the temporary file *)
| IoWrite (chunk : list Z)  (* write to the temporary file *)
| IoClose
| IoReplace.                (* os.replace(tmp, file): atomic rename *)

Definition io_step (s : fs) (op : io) : fs :=
  match op with
  | IoOpenTmp => {| f_main := f_main s; f_tmp := Some [] |}
  | IoWrite c => {| f_main := f_main s; f_tmp := option_map (fun t => t ++ c) (f_tmp s) |}
  | IoClose => s
  | IoReplace => match f_tmp s with Some t => {| f_main := Some t; f_tmp := None |} | None => s end
  end.

Definition save_ops (content : list Z) : list io := [IoOpenTmp; IoWrite content; IoClose; IoReplace].
Definition run_io (s : fs) (ops : list io) : fs := fold_left io_step ops s.

(* every state a crash can leave while content is being saved: a prefix of the operations, the write possibly torn *)
Inductive crash_state (s : fs) (content : list Z) : fs -> Prop :=
| CrashBefore : crash_state s content s
| CrashTorn p q : content = p ++ q -> crash_state s content (run_io s [IoOpenTmp; IoWrite p])
| CrashClosed : crash_state s content (run_io s [IoOpenTmp; IoWrite content; IoClose])
| CrashAfter : crash_state s content (run_io s (save_ops content)).

(* the truncating protocol the code used before fix 0dd80e4: open(file, 'w') then write *)
Definition inplace_crash_states (s : fs) (content : list Z) : list fs :=
  [s; {| f_main := Some []; f_tmp := f_tmp s |}; {| f_main := Some content; f_tmp := f_tmp s |}].

Section Load.
  Variable D : Type.
  Variable parse : list Z -> option D.     (* json_loads + revival; None = any exception *)
  Variable empty : D.
  (* __init__: any exception while reading leaves the store empty; the temporary file is never read *)
  Definition load (s : fs) : D :=
    match f_main s with Some b => match parse b with Some d => d | None => empty end | None => empty end.
End Load.

(* ================= 2. dictionary operations and write-through ================= *)
Section PDict.
  Variable V : Type.
  Definition kv := list (Z * V).
  Fixpoint kget (k : Z) (d : kv) : option V := match d with [] => None | (k', v) :: t => if (k =? k')%Z then Some v else kget k t end.
  Fixpoint kdel (k : Z) (d : kv) : kv := match d with [] => [] | (k', v) :: t => if (k =? k')%Z then t else (k', v) :: kdel k t end.
  Fixpoint kset (k : Z) (v : V) (d : kv) : kv :=
    match d with [] => [(k, v)] | (k', v') :: t => if (k =? k')%Z then (k, v) :: t else (k', v') :: kset k v t end.

  Record pdict := { pd_data : kv; pd_file : kv }.     (* in memory / what the file decodes to *)

  Inductive prim :=
  | PSet (k : Z) (v : V)       (* d[k] = v             -> _save *)
  | PDel (k : Z)               (* del d[k]             -> _save when the key exists (else KeyError, nothing written) *)
  | PPop (k : Z)               (* d.pop(k, default)    -> _save when the key exists *)
  | PMutate (k : Z) (v : V).   (* an object obtained from d[k] / d.get(k) is updated in place: nothing is written *)

  Definition prim_step (d : pdict) (p : prim) : pdict :=
    match p with
    | PSet k v => let n := kset k v (pd_data d) in {| pd_data := n; pd_file := n |}
    | PDel k | PPop k => match kget k (pd_data d) with
                         | Some _ => let n := kdel k (pd_data d) in {| pd_data := n; pd_file := n |}
                         | None => d
                         end
    | PMutate k v => match kget k (pd_data d) with
                     | Some _ => {| pd_data := kset k v (pd_data d); pd_file := pd_file d |}
                     | None => d
                     end
    end.
  Definition run_prims (d : pdict) (tr : list prim) : pdict := fold_left prim_step tr d.

  Definition is_set (p : prim) : bool := match p with PSet _ _ => true | _ => false end.
  (* every in-place update is followed, later in the same call, by an assignment that saves *)
  Fixpoint trace_ok (tr : list prim) : bool :=
    match tr with
    | [] => true
    | PMutate _ _ :: t => existsb is_set t && trace_ok t
    | _ :: t => trace_ok t
    end.

  (* the same with the dictionary in view: an assignment, or a deletion/pop of an existing key, writes everything;
     returns whether anything is left unsaved at the end *)
  Fixpoint dirty_after (data : kv) (dirty : bool) (tr : list prim) : bool :=
    match tr with
    | [] => dirty
    | PSet k v :: t => dirty_after (kset k v data) false t
    | PDel k :: t | PPop k :: t =>
      match kget k data with Some _ => dirty_after (kdel k data) false t | None => dirty_after data dirty t end
    | PMutate k v :: t =>
      match kget k data with Some _ => dirty_after (kset k v data) true t | None => dirty_after data dirty t end
    end.
End PDict.
Arguments PSet {V}. Arguments PDel {V}. Arguments PPop {V}. Arguments PMutate {V}.
Arguments pd_data {V}. Arguments pd_file {V}.

(* ================= 3. JSON form of the stores and their revival ================= *)
Inductive sval :=
| SStamped (stamp : Z) (m : message)                 (* _store, _delivery_store: (stored_at, message) *)
| SPair (key : list Z) (b : Z)                       (* _segment_store: (status key 'ref/seq', segment seq_num) *)
| SSegStat (status : list (string * Z)) (orig : message) (last_response last_receipt : option message)
| SSegText (stamp : Z) (segs : list (string * list Z)).   (* _delivery_segment_store: (stored_at, {seq: text}) *)

Definition opt_msg_json (o : option message) : res json :=
  match o with None => Ok JNull | Some m => to_json m end.

Definition sval_json (v : sval) : res json :=
  match v with
  | SStamped st m => do j <- to_json m; Ok (JArr [JReal st; j])
  | SPair a b => Ok (JArr [JStr a; JInt b])
  | SSegStat status orig lr lc =>
    do jo <- to_json orig; do jr <- opt_msg_json lr; do jc <- opt_msg_json lc;
    Ok (JObj [("status", JObj (map (fun kv => (fst kv, JInt (snd kv))) status)); ("orig_submit_sm", jo);
              ("last_response", jr); ("last_receipt", jc)])
  | SSegText st segs => Ok (JArr [JReal st; JObj (map (fun kv => (fst kv, JStr (snd kv))) segs)])
  end.

Fixpoint has_key (k : string) (o : list (string * json)) : bool :=
  match o with [] => false | (k', _) :: t => String.eqb k k' || has_key k t end.

(* what a revived member is *)
Inductive pobj :=
| OMsg (m : message) | OSeg (status : list (string * Z)) (orig : message) (lr lc : option message)
| ODict (o : list (string * json)) | OPlain (j : json).

Definition revive_opt (j : json) : res (option message) :=
  match j with
  | JObj _ => do m <- of_json j; Ok (Some m)          (* isinstance(obj.get(key), dict) -> dict_to_smpp_message *)
  | JNull => Ok None
  | _ => Err EXN_Unmodelled
  end.

Fixpoint ints_of (o : list (string * json)) : res (list (string * Z)) :=
  match o with
  | [] => Ok []
  | (k, JInt z) :: t => do r <- ints_of t; Ok ((k, z) :: r)
  | _ => Err EXN_Unmodelled
  end.
Fixpoint strs_of (o : list (string * json)) : res (list (string * list Z)) :=
  match o with
  | [] => Ok []
  | (k, JStr s) :: t => do r <- strs_of t; Ok ((k, s) :: r)
  | _ => Err EXN_Unmodelled
  end.

(* PersistingDict._process_object *)
Definition process_object (o : list (string * json)) : res pobj :=
  if has_key "__smpp_command__" o then do m <- of_json (JObj o); Ok (OMsg m)
  else if has_key "orig_submit_sm" o then
    match jget "status" o, jget "orig_submit_sm" o, jget "last_response" o, jget "last_receipt" o with
    | Some (JObj st), Some jo, Some jr, Some jc =>
      do status <- ints_of st;
      do orig <- (match jo with JObj _ => of_json jo | _ => Err EXN_Unmodelled end);
      do lr <- revive_opt jr; do lc <- revive_opt jc;
      Ok (OSeg status orig lr lc)
    | _, _, _, _ => Err EXN_TypeError          (* SegmentStatus constructed from the dict, with a missing argument *)
    end
  else Ok (ODict o).

(* one value of the loaded dictionary, as __init__ treats it, classified into the store kinds *)
Definition revive_val (j : json) : res sval :=
  match j with
  | JObj o =>
    do r <- process_object o;
    match r with OSeg st orig lr lc => Ok (SSegStat st orig lr lc) | _ => Err EXN_Unmodelled end
  | JArr [JStr a; JInt b] => Ok (SPair a b)
  | JArr [JReal st; JObj o] =>
    do r <- process_object o;
    match r with
    | OMsg m => Ok (SStamped st m)
    | ODict d => do segs <- strs_of d; Ok (SSegText st segs)
    | _ => Err EXN_Unmodelled
    end
  | _ => Err EXN_Unmodelled
  end.

Definition store := list (string * sval).
Fixpoint store_json (s : store) : res (list (string * json)) :=
  match s with [] => Ok [] | (k, v) :: t => do j <- sval_json v; do r <- store_json t; Ok ((k, j) :: r) end.
Fixpoint revive_store (o : list (string * json)) : res store :=
  match o with [] => Ok [] | (k, j) :: t => do v <- revive_val j; do r <- revive_store t; Ok ((k, v) :: r) end.
(* __init__: any exception leaves the store empty *)
Definition load_store (doc : option json) : store :=
  match doc with Some (JObj o) => match revive_store o with Ok s => s | Err _ => [] end | _ => [] end.

(* ---- serialisation for the harness ---- *)
Definition ser_key (k : string) : list Z := Z.of_nat (List.length (codes k)) :: codes k.
Definition ser_optmsg (o : option message) : list Z := match o with None => [0] | Some m => 1 :: ser_message m end.
Definition ser_sval (v : sval) : list Z :=
  match v with
  | SStamped st m => 1 :: st :: ser_message m
  | SPair a b => 2 :: Z.of_nat (List.length a) :: a ++ [b]
  | SSegStat status orig lr lc =>
    3 :: Z.of_nat (List.length status) :: List.concat (map (fun kv => ser_key (fst kv) ++ [snd kv]) status)
      ++ ser_message orig ++ ser_optmsg lr ++ ser_optmsg lc
  | SSegText st segs =>
    4 :: st :: Z.of_nat (List.length segs) :: List.concat (map (fun kv => ser_key (fst kv) ++ (Z.of_nat (List.length (snd kv)) :: snd kv)) segs)
  end.
Definition ser_store (s : store) : list Z :=
  Z.of_nat (List.length s) :: List.concat (map (fun kv => ser_key (fst kv) ++ ser_sval (snd kv)) s).
Definition ser_store_json (s : store) : list Z :=
  match store_json s with Ok o => 0 :: ser_json (JObj o) | Err e => [1; e] end.
Definition ser_load (doc : option json) : list Z := ser_store (load_store doc).
