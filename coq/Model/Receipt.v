(* Executable model of DeliverSm.is_receipt / parse_receipt / encode_receipt (protocol.py). *)
From Coq Require Import ZArith List Bool.
Import ListNotations.
Require Import AV.Generated.ExnOrder AV.Generated.SmppConsts AV.Model.Base AV.Model.TimeFmt.
Open Scope Z_scope.

(* values of the receipt dictionary *)
Inductive rval :=
| VInt (n : Z)
| VStr (s : list Z)
| VDate (y mo d h mi : Z).      (* datetime to the minute, naive *)

Definition rdict := list (list Z * rval).   (* insertion-ordered Python dict, string keys *)

Fixpoint dset (d : rdict) (k : list Z) (v : rval) : rdict :=
  match d with
  | [] => [(k, v)]
  | (k', v') :: t => if list_eqb k k' then (k, v) :: t else (k', v') :: dset t k v
  end.

Fixpoint dget (d : rdict) (k : list Z) : option rval :=
  match d with
  | [] => None
  | (k', v') :: t => if list_eqb k k' then Some v' else dget t k
  end.

(* str.find(c) on the remaining suffix: split at the first occurrence *)
Fixpoint split_on (c : Z) (s : list Z) : option (list Z * list Z) :=
  match s with
  | [] => None
  | x :: t => if x =? c then Some ([], t)
              else match split_on c t with Some (a, b) => Some (x :: a, b) | None => None end
  end.

(* str.lower() restricted to ASCII letters *)
Definition lower_char (c : Z) : Z := if (65 <=? c) && (c <=? 90) then c + 32 else c.
Definition lower (s : list Z) : list Z := map lower_char s.

Definition k_id := [105; 100].
Definition k_sub := [115; 117; 98].
Definition k_dlvrd := [100; 108; 118; 114; 100].
Definition k_submit_date := [115; 117; 98; 109; 105; 116; 32; 100; 97; 116; 101].
Definition k_done_date := [100; 111; 110; 101; 32; 100; 97; 116; 101].
Definition k_stat := [115; 116; 97; 116].
Definition k_err := [101; 114; 114].
Definition k_text := [116; 101; 120; 116].

(* ---- datetime.strptime(value, '%y%m%d%H%M'): the regex alternatives of _strptime, tried in
   order with backtracking; a candidate is (value, characters consumed) *)
Definition dg (c : Z) : bool := is_digit c.
Definition dv (c : Z) : Z := c - 48.

Definition cands_y (s : list Z) : list (Z * nat) :=
  match s with a :: b :: _ => if dg a && dg b then [(dv a * 10 + dv b, 2%nat)] else [] | _ => [] end.

Definition cands_m (s : list Z) : list (Z * nat) :=
  (match s with a :: b :: _ => if (a =? 49) && (48 <=? b) && (b <=? 50) then [(10 + dv b, 2%nat)] else [] | _ => [] end)
  ++ (match s with a :: b :: _ => if (a =? 48) && (49 <=? b) && (b <=? 57) then [(dv b, 2%nat)] else [] | _ => [] end)
  ++ (match s with a :: _ => if (49 <=? a) && (a <=? 57) then [(dv a, 1%nat)] else [] | _ => [] end).

Definition cands_d (s : list Z) : list (Z * nat) :=
  (match s with a :: b :: _ => if (a =? 51) && (48 <=? b) && (b <=? 49) then [(30 + dv b, 2%nat)] else [] | _ => [] end)
  ++ (match s with a :: b :: _ => if (49 <=? a) && (a <=? 50) && dg b then [(dv a * 10 + dv b, 2%nat)] else [] | _ => [] end)
  ++ (match s with a :: b :: _ => if (a =? 48) && (49 <=? b) && (b <=? 57) then [(dv b, 2%nat)] else [] | _ => [] end)
  ++ (match s with a :: _ => if (49 <=? a) && (a <=? 57) then [(dv a, 1%nat)] else [] | _ => [] end)
  ++ (match s with a :: b :: _ => if (a =? 32) && (49 <=? b) && (b <=? 57) then [(dv b, 2%nat)] else [] | _ => [] end).

Definition cands_H (s : list Z) : list (Z * nat) :=
  (match s with a :: b :: _ => if (a =? 50) && (48 <=? b) && (b <=? 51) then [(20 + dv b, 2%nat)] else [] | _ => [] end)
  ++ (match s with a :: b :: _ => if (48 <=? a) && (a <=? 49) && dg b then [(dv a * 10 + dv b, 2%nat)] else [] | _ => [] end)
  ++ (match s with a :: _ => if dg a then [(dv a, 1%nat)] else [] | _ => [] end).

Definition cands_M (s : list Z) : list (Z * nat) :=
  (match s with a :: b :: _ => if (48 <=? a) && (a <=? 53) && dg b then [(dv a * 10 + dv b, 2%nat)] else [] | _ => [] end)
  ++ (match s with a :: _ => if dg a then [(dv a, 1%nat)] else [] | _ => [] end).

(* all complete matches in regex priority order *)
Definition strptime_matches (s : list Z) : list (Z * Z * Z * Z * Z) :=
  flat_map (fun '(y, n1) => let s1 := skipn n1 s in
  flat_map (fun '(mo, n2) => let s2 := skipn n2 s1 in
  flat_map (fun '(d, n3) => let s3 := skipn n3 s2 in
  flat_map (fun '(h, n4) => let s4 := skipn n4 s3 in
  flat_map (fun '(mi, n5) => match skipn n5 s4 with [] => [(y, mo, d, h, mi)] | _ => [] end)
           (cands_M s4)) (cands_H s3)) (cands_d s2)) (cands_m s1)) (cands_y s).

Definition strptime (s : list Z) : res rval :=
  match strptime_matches s with
  | [] => Err EXN_ValueError
  | (y, mo, d, h, mi) :: _ =>
    let year := if y <? 69 then 2000 + y else 1900 + y in
    if d <=? days_in_month year mo then Ok (VDate year mo d h mi) else Err EXN_ValueError
  end.

Definition set_param (acc : rdict) (param value : list Z) : res rdict :=
  if list_eqb param k_sub || list_eqb param k_dlvrd || list_eqb param k_err then
    match py_int value with Some n => Ok (dset acc param (VInt n)) | None => Err EXN_ValueError end
  else if list_eqb param k_submit_date || list_eqb param k_done_date then
    do v <- strptime value; Ok (dset acc param v)
  else Ok (dset acc param (VStr value)).

(* the `while True` loop of parse_receipt on the remaining suffix of short_message *)
Fixpoint scan (fuel : nat) (rem : list Z) (acc : rdict) : res rdict :=
  match fuel with
  | O => Ok acc
  | S f =>
    match split_on 58 rem with
    | None => Ok acc
    | Some (p, after) =>
      let param := lower p in
      let '(value, rest) :=
          if list_eqb param k_text then (after, [])
          else match split_on 32 after with Some (v, r) => (v, r) | None => (after, []) end in
      do acc' <- set_param acc param value;
      scan f rest acc'
    end
  end.

Definition is_receipt (esm_class : Z) : bool := (esm_class / 4) mod 16 =? 1.

(* parse_receipt(esm_class, short_message, receipted_message_id TLV value if present) *)
Definition parse_receipt (esm_class : Z) (text : list Z) (tlv_id : option (list Z)) : res rdict :=
  if negb (is_receipt esm_class) then Ok []
  else
    do d <- scan (S (length text)) text [];
    let has_id := match dget d k_id with Some (VStr (_ :: _)) => true | _ => false end in
    if has_id then Ok d
    else match tlv_id with Some v => Ok (dset d k_id (VStr v)) | None => Ok d end.

(* ---- encode_receipt ---- *)
Definition fmt03 (n : Z) : list Z :=
  if 0 <=? n then (if n <? 10 then [48; 48; digit n] else if n <? 100 then 48 :: digits n else digits n)
  else 45 :: (if - n <? 10 then [48; digit (- n)] else digits (- n)).

Definition pad20 (s : list Z) : list Z := s ++ repeat 32 (20 - length s).

Definition date_str (y mo d h mi : Z) : list Z := two (y mod 100) ++ two mo ++ two d ++ two h ++ two mi.

Record receipt := { r_id : list Z; r_sub : Z; r_dlvrd : Z;
                    r_sdate : option (Z * Z * Z * Z * Z); r_ddate : option (Z * Z * Z * Z * Z);
                    r_stat : list Z; r_err : Z; r_text : list Z }.

Definition opt_date_str (o : option (Z * Z * Z * Z * Z)) : list Z :=
  match o with Some (y, mo, d, h, mi) => date_str y mo d h mi | None => [] end.

Definition encode_receipt (r : receipt) : list Z :=
  k_id ++ [58] ++ r_id r
  ++ [32] ++ k_sub ++ [58] ++ fmt03 (r_sub r)
  ++ [32] ++ k_dlvrd ++ [58] ++ fmt03 (r_dlvrd r)
  ++ [32] ++ k_submit_date ++ [58] ++ opt_date_str (r_sdate r)
  ++ [32] ++ k_done_date ++ [58] ++ opt_date_str (r_ddate r)
  ++ [32] ++ k_stat ++ [58] ++ r_stat r
  ++ [32] ++ k_err ++ [58] ++ fmt03 (r_err r)
  ++ [32; 84; 101; 120; 116; 58] ++ pad20 (r_text r).

(* ---- serialisation for the harness: entries in dict order ---- *)
Definition ser_rval (v : rval) : list Z :=
  match v with
  | VInt n => [1; n]
  | VStr s => 2 :: Z.of_nat (length s) :: s
  | VDate y mo d h mi => [3; y; mo; d; h; mi]
  end.
Definition ser_rdict (d : rdict) : list Z :=
  flat_map (fun kv => Z.of_nat (length (fst kv)) :: fst kv ++ ser_rval (snd kv)) d.
Definition ser_res_rdict (r : res rdict) : list Z :=
  match r with Ok d => 0 :: ser_rdict d | Err e => [1; e] end.
