(* The sender side of esme.py: the loop body of _dequeue_messages for a SubmitSm - segmentation decision, clones,
   _send_data (sequence number, pdu(), write) - and the classification of errors in its guarded region.
   Throttle handler and rate limiter (C18) only delay; the sending hook and the correlator do not change what is written. *)
From Coq Require Import ZArith List Bool.
Import ListNotations.
Require Import AV.Generated.ExnOrder AV.Generated.SmppConsts AV.Generated.Handled
               AV.Model.Base AV.Model.Codec AV.Model.Split AV.Model.TimeFmt AV.Model.Seq AV.Model.Receipt AV.Model.Pdu AV.Model.Recv.
Open Scope Z_scope.

(* `if not isinstance(err, (ValueError, LookupError, struct.error)): raise` *)
Definition build_caught (e : Z) : bool := existsb (exn_is e) sender_build_error_classes.

(* the `encoding` string handed to split_sms: '' = detect, 'gsm0338' = septet branch, any other name = UCS2 branch *)
Definition enc_arg (e : option enc) : option Z :=
  match e with None => None | Some EncGsm => Some 0 | Some _ => Some 8 end.
Definition enc_of_fmt (f : Z) : enc := if f =? 0 then EncGsm else EncUcs2.

Definition sar_opts (ref idx total : Z) : list optparam :=
  [{| op_tag := TAG_SAR_MSG_REF_NUM; op_val := TInt ref |};
   {| op_tag := TAG_SAR_SEGMENT_SEQNUM; op_val := TInt idx |};
   {| op_tag := TAG_SAR_TOTAL_SEGMENTS; op_val := TInt total |}].

Definition upd (m : smsg) (seq esm : Z) (e : option enc) (pre : list Z) (opts : list optparam) : smsg :=
  {| s_seq := seq; s_status := s_status m; s_short := s_short m; s_src := s_src m; s_dst := s_dst m; s_service := s_service m;
     s_esm := esm; s_pid := s_pid m; s_prio := s_prio m; s_sched := s_sched m; s_valid := s_valid m;
     s_regdel := s_regdel m; s_replace := s_replace m; s_enc := e; s_defmsg := s_defmsg m; s_payload := s_payload m;
     s_opts := opts; s_auto := s_auto m; s_err := s_err m; s_pre := pre |}.

Definition clones (m : smsg) (e : option enc) (ref : Z) (parts : list (list Z)) : list smsg :=
  let total := Z.of_nat (length parts) in
  map (fun ip => upd m (s_seq m) (s_esm m) e (snd ip) (s_opts m ++ sar_opts ref (Z.of_nat (fst ip) + 1) total))
      (combine (seq 0 (length parts)) parts).

(* messages_to_send *)
Definition segment_msgs (default : enc) (m : smsg) (ref : Z) : res (list smsg) :=
  if s_auto m then Ok [m]
  else if 0 <? (s_esm m / 64) mod 2 then
    let fmt := detect_format (s_short m) in
    do parts <- split_sms_udh (s_short m) (Some fmt) ref;
    match parts with
    | [_] => Ok [upd m (s_seq m) ((s_esm m) mod 256 - 64) (s_enc m) (s_pre m) (s_opts m)]     (* esm_class & 0b10111111 *)
    | _ => Ok (clones m (Some (enc_of_fmt fmt)) ref parts)
    end
  else
    do be <- smpp_encode default m (s_short m);
    do parts <- split_sms (s_short m) (enc_arg (snd be));
    match parts with
    | [_] => Ok [upd m (s_seq m) (s_esm m) (snd be) (fst be) (s_opts m)]
    | _ => Ok (clones m (snd be) ref parts)
    end.

(* _send_data for each message in turn: next sequence number, pdu(), write; stops at the first error *)
Fixpoint send_segs (default : enc) (g : seqgen) (segs : list smsg) (acc : list (list Z)) : seqgen * list (list Z) * option Z :=
  match segs with
  | [] => (g, acc, None)
  | s :: t =>
    let '(n, g') := next_sequence g in
    match encode_sm default SmppCommand_SUBMIT_SM (upd s n (s_esm s) (s_enc s) (s_pre s) (s_opts s)) with
    | Ok be => send_segs default g' t (acc ++ [fst be])
    | Err e => (g', acc, Some e)
    end
  end.

Inductive sevent :=
| EvWrite (pdu : list Z)
| EvSendError (index : nat) (e : Z).     (* hook.send_error(queued message number index, error of class e) *)

Record sstate := { st_seq : seqgen; st_ref : seqgen }.

(* one dequeued SubmitSm: events, new state, and the exception that leaves the loop (None = the loop goes on) *)
Definition send_one (default : enc) (st : sstate) (idx : nat) (m : smsg) : list sevent * sstate * option Z :=
  let '(ref, gref) := if s_auto m then (0, st_ref st) else next_sequence (st_ref st) in
  match segment_msgs default m ref with
  | Err e => ([EvSendError idx e], {| st_seq := st_seq st; st_ref := gref |}, if build_caught e then None else Some e)
  | Ok segs =>
    let '(g', written, err) := send_segs default (st_seq st) segs [] in
    let st' := {| st_seq := g'; st_ref := gref |} in
    match err with
    | None => (map EvWrite written, st', None)
    | Some e => (map EvWrite written ++ [EvSendError idx e], st', if build_caught e then None else Some e)
    end
  end.

Fixpoint run_queue (default : enc) (st : sstate) (idx : nat) (msgs : list smsg) : list sevent * sstate * option Z :=
  match msgs with
  | [] => ([], st, None)
  | m :: t =>
    let '(ev, st', stop) := send_one default st idx m in
    match stop with
    | Some e => (ev, st', Some e)
    | None => let '(ev2, st2, stop2) := run_queue default st' (S idx) t in (ev ++ ev2, st2, stop2)
    end
  end.

(* what SubmitSm.__post_init__ / OptionalParam.__post_init__ guarantee beyond the typing of the model *)
Definition opt_ok (p : optparam) : bool :=
  match tag_data_type (op_tag p), op_val p with
  | TyStr, TStr _ => negb (op_tag p =? TAG_MESSAGE_PAYLOAD)
  | TyStr, _ => false
  | _, _ => true
  end.
Definition ctor_ok (m : smsg) : bool := forallb opt_ok (s_opts m).

(* ---- serialisation for the harness ---- *)
Definition ser_events (r : list sevent * sstate * option Z) : list Z :=
  let '(ev, st, stop) := r in
  concat (map (fun e => match e with
                        | EvWrite p => 1 :: Z.of_nat (length p) :: p
                        | EvSendError i x => [2; Z.of_nat i; x]
                        end) ev)
  ++ match stop with None => [0] | Some e => [3; e] end.
Definition ser_queue (default : enc) (seq0 ref0 : Z) (msgs : list smsg) : list Z :=
  ser_events (run_queue default {| st_seq := {| sg_min := seqgen_default_min; sg_max := seqgen_default_max; sg_cur := seq0 |};
                                   st_ref := {| sg_min := 0; sg_max := 255; sg_cur := ref0 |} |} 0 msgs).
