(* The receiver's handling of one PDU as an ordered list of actions (esme.py _receive_data / _handle_request), with writes that may
   fail (the connection is lost at that moment): a failed write raises, and the rest of the handling is skipped.  The order of the
   hook call and the answer, and the guard around the negative answer, are read off the source by the translator
   (Generated/Handled.v: receiver_hook_before_response, request_nack_hook_on_failure). *)
From Coq Require Import ZArith List Bool.
Import ListNotations.
Require Import AV.Generated.Handled AV.Model.Base AV.Model.Pdu AV.Model.Recv.

Inductive ract :=
| RHook (parsed : bool)             (* await hook.received(message or None, pdu) *)
| RWrite (p : list Z)               (* await _send_data(response) *)
| RWriteGuarded (p : list Z).       (* await _send_data(nack) inside try/except: on failure the hook gets the raw PDU, then re-raise *)

Definition actions (r : reaction) : list ract :=
  match rx_out r with
  | ORaise _ => []                                  (* the handler raised before anything was done (unmodelled exceptions only) *)
  | _ =>
    if rx_parsed r
    then (if receiver_hook_before_response then RHook true :: map RWrite (rx_sent r) else map RWrite (rx_sent r) ++ [RHook true])
    else map (if request_nack_hook_on_failure then RWriteGuarded else RWrite) (rx_sent r) ++ [RHook false]
  end.

(* number of received-hook calls for this PDU when the n-th write of its handling succeeds iff ok n *)
Fixpoint hook_calls (acts : list ract) (ok : nat -> bool) (n : nat) : nat :=
  match acts with
  | [] => O
  | RHook _ :: t => S (hook_calls t ok n)
  | RWrite _ :: t => if ok n then hook_calls t ok (S n) else O
  | RWriteGuarded _ :: t => if ok n then hook_calls t ok (S n) else 1%nat
  end.

(* is the answer written only after the hook returned? (position of the first write relative to the hook call) *)
Definition hook_precedes_writes (acts : list ract) : bool :=
  match acts with
  | [] => true
  | RHook _ :: _ => true
  | _ :: _ => false
  end.

(* the receiver is cancelled (session torn down) while it handles a PDU it has read: inside the handler (the correlator's awaits: sweeps
   that call the application's send_error hook) or inside the received hook.  A response is handled to its end - as long as the
   application's hooks return within socket_timeout, after which the handling is cancelled - (receiver_finishes_read_pdu,
   read off _receive_data: the handling runs shielded and is awaited before the cancellation is passed on; nothing in it waits for the
   session); the handling of a request is interrupted, and the raw PDU is handed to the hook (request_handling_cancel_guard, read off
   _handle_pdu). *)
Inductive cancel_phase := InHandler | InHook.
Definition hook_calls_when_cancelled (is_req : bool) (ph : cancel_phase) : nat :=
  match ph with
  | InHook => 1%nat
  | InHandler => if is_req then (if request_handling_cancel_guard then 1%nat else O) else (if receiver_finishes_read_pdu then 1%nat else O)
  end.

Definition ser_hook_calls (default : enc) (pdu : list Z) (writes_fail : bool) : list Z :=
  match parse_header (firstn 16 pdu) with
  | Err _ => [-1]
  | Ok h => [Z.of_nat (hook_calls (actions (react default pdu h)) (fun _ => negb writes_fail) 0)]
  end.
