(* Executable model of SimpleCorrelator (correlator.py, after fix 6160d29): request store, segment
   stores, expiry. The expiry sweep is modelled at await granularity: one key per step, because
   hook.send_error may suspend between keys and other tasks run correlator operations meanwhile. *)
From Coq Require Import ZArith QArith List Bool.
Import ListNotations.
Require Import AV.Generated.ExnOrder AV.Generated.SmppConsts AV.Model.Base AV.Model.PyDict AV.Model.Limiter.
Open Scope Z_scope.

Record smsg := { sm_uid : Z;            (* ghost: identity of the Python object *)
                 sm_cmd : Z;            (* smpp_command *)
                 sm_seq : Z;            (* sequence_num *)
                 sm_log : Z;            (* ghost: which application message (log_id/extra_data) *)
                 sm_sar : Z * Z * Z }.  (* get_segmentation_data(): ref, seq, total; (0,0,0) if none *)

Record resp := { rs_uid : Z; rs_cmd : Z; rs_seq : Z; rs_status : Z }.

Record segstat := { ss_status : dict Z;            (* segment seq -> status code *)
                    ss_orig : smsg;
                    ss_last_resp : option resp;
                    ss_last_rcpt : option Z }.

(* a store entry: (stored_at, message) plus a ghost entry id *)
Record entry := { e_at : Q; e_msg : smsg; e_id : Z }.

Record corr := { c_store : dict entry;            (* _store: seq -> (stored_at, message) *)
                 c_seg : dict (Z * Z);            (* _segment_store: seq -> (status key, segment seq) *)
                 c_stat : dict segstat;           (* _segment_status_store: status key -> SegmentStatus *)
                 c_cur : dict Z;                  (* _status_keys: reference -> status key of the message being sent under it *)
                 c_ttl : Q }.                     (* max_ttl_response *)

(* the status key 'ref/seq' of a message: its reference combined with the sequence number of its first stored segment
   (fix of the shared status cell of two messages with the same 8-bit reference); injective for references below 65536 *)
Definition skey (ref seq : Z) : Z := ref + 65536 * (seq + 1).

Definition corr_init (ttl : Q) : corr := {| c_store := []; c_seg := []; c_stat := []; c_cur := []; c_ttl := ttl |}.

Definition is_submit (m : smsg) : bool := sm_cmd m =? SmppCommand_SUBMIT_SM.

Definition with_store (c : corr) (s : dict entry) : corr :=
  {| c_store := s; c_seg := c_seg c; c_stat := c_stat c; c_cur := c_cur c; c_ttl := c_ttl c |}.
Definition with_seg (c : corr) (s : dict (Z * Z)) : corr :=
  {| c_store := c_store c; c_seg := s; c_stat := c_stat c; c_cur := c_cur c; c_ttl := c_ttl c |}.
Definition with_stat (c : corr) (s : dict segstat) : corr :=
  {| c_store := c_store c; c_seg := c_seg c; c_stat := s; c_cur := c_cur c; c_ttl := c_ttl c |}.
Definition with_cur (c : corr) (s : dict Z) : corr :=
  {| c_store := c_store c; c_seg := c_seg c; c_stat := c_stat c; c_cur := s; c_ttl := c_ttl c |}.

Definition set_status (ss : segstat) (k v : Z) : segstat :=
  {| ss_status := dset (ss_status ss) k v; ss_orig := ss_orig ss; ss_last_resp := ss_last_resp ss; ss_last_rcpt := ss_last_rcpt ss |}.
Definition set_last_resp (ss : segstat) (r : resp) : segstat :=
  {| ss_status := ss_status ss; ss_orig := ss_orig ss; ss_last_resp := Some r; ss_last_rcpt := ss_last_rcpt ss |}.

Fixpoint zmax_list (l : list Z) (acc : Z) : Z := match l with [] => acc | x :: t => zmax_list t (Z.max acc x) end.

(* get_cumulated_status(ref_num) when the cell exists *)
Definition cumulated (c : corr) (ref : Z) (ss : segstat) : corr * Z :=
  match map snd (ss_status ss) with
  | [] => (c, STATUS_SENDING)
  | v :: vs =>
    let code := zmax_list vs v in
    if (code =? STATUS_SENDING) || (code =? STATUS_SENT) then (c, code)
    else (with_stat c (ddel ref (c_stat c)), code)
  end.

(* expired(message): at most one send_error call; the message handed to the hook *)
Definition expired (c : corr) (m : smsg) : corr * option smsg :=
  if is_submit m then
    match dget (sm_seq m) (c_seg c) with
    | Some (ref, sseq) =>
      let c1 := with_seg c (ddel (sm_seq m) (c_seg c)) in
      match dget ref (c_stat c1) with
      | Some ss =>
        let ss' := set_status ss sseq STATUS_EXPIRED in
        let c2 := with_stat c1 (dset (c_stat c1) ref ss') in
        let '(c3, code) := cumulated c2 ref ss' in
        if (code =? STATUS_EXPIRED) || (code =? STATUS_FAILED) then (c3, Some (ss_orig ss')) else (c3, None)
      | None => (c1, None)
      end
    | None => (c, Some m)
    end
  else (c, None).

(* ---- the sweep of _remove_expired over _store, one key per step ---- *)
Record sweep := { sw_now : Q; sw_keys : list Z }.

Definition sweep_start (c : corr) (now : Q) : sweep := {| sw_now := now; sw_keys := dkeys (c_store c) |}.

(* what one iteration reports: the entry it expired (ghost), and the hook call if any *)
Record swout := { so_entry : entry; so_now : Q; so_call : option smsg }.

Definition sweep_step (c : corr) (sw : sweep) : corr * sweep * option swout :=
  match sw_keys sw with
  | [] => (c, sw, None)
  | k :: ks =>
    let sw' := {| sw_now := sw_now sw; sw_keys := ks |} in
    match dget k (c_store c) with
    | None => (c, sw', None)                       (* removed meanwhile by another task *)
    | Some e =>
      if qlt (c_ttl c) (sw_now sw - e_at e) then
        let c1 := with_store c (ddel k (c_store c)) in
        let '(c2, call) := expired c1 (e_msg e) in
        (c2, sw', Some {| so_entry := e; so_now := sw_now sw; so_call := call |})
      else (c, sw', None)
    end
  end.

(* put(message), the part before the sweep: the request is stored first, with the clock reading of that moment (fix: the
   sweep awaits the application's hook, and the response to this request may be processed meanwhile) *)
Definition put_store (c : corr) (now : Q) (m : smsg) (eid : Z) : corr :=
  let c1 := with_store c (dset (c_store c) (sm_seq m) {| e_at := now; e_msg := m; e_id := eid |}) in
  if is_submit m then
    let '(ref, sseq, total) := sm_sar m in
    if (0 <? total) && (total <=? 255) then       (* sar_total_segments is a single octet: anything larger is not segmentation data *)
      let fresh := {| ss_status := map (fun i => (Z.of_nat i, STATUS_SENDING)) (seq 1 (Z.to_nat total));
                      ss_orig := m; ss_last_resp := None; ss_last_rcpt := None |} in
      (* a later segment joins the status of the message being sent under its reference; the first segment starts a new one *)
      let joined := if 1 <? sseq
                    then match dget ref (c_cur c1) with
                         | Some k => match dget k (c_stat c1) with Some ss => Some (k, ss) | None => None end
                         | None => None
                         end
                    else None in
      let key := match joined with Some (k, _) => k | None => skey ref (sm_seq m) end in
      let ss := match joined with Some (_, ss) => ss | None => fresh end in
      let cur' := match joined with Some _ => c_cur c1 | None => dset (c_cur c1) ref (skey ref (sm_seq m)) end in
      let c2 := with_cur (with_seg c1 (dset (c_seg c1) (sm_seq m) (key, sseq))) cur' in
      with_stat c2 (dset (c_stat c2) key (set_status ss sseq STATUS_SENDING))
    else
      (* not a segment: whatever an answered segment of an older message left under this sequence number is dropped *)
      with_seg c1 (ddel (sm_seq m) (c_seg c1))
  else c1.

(* get(response), the part before the sweep *)
(* a response answers a request of its own type; a generic_nack answers any request *)
Definition answers (r : resp) (m : smsg) : bool :=
  (rs_cmd r =? SmppCommand_GENERIC_NACK)
  || match lookup (sm_cmd m) command_response_map with Some c => c =? rs_cmd r | None => false end.

Definition get_pop (c : corr) (r : resp) : corr * option entry :=
  match dget (rs_seq r) (c_store c) with
  | None => (c, None)
  | Some e =>
    if negb (answers r (e_msg e)) then (c, None)    (* a response of another type: the request stays outstanding *)
    else
    let c1 := with_store c (ddel (rs_seq r) (c_store c)) in
    let m := e_msg e in
    let c2 :=
        if is_submit m then
          match dget (rs_seq r) (c_seg c1) with
          | Some (ref, sseq) =>
            match dget ref (c_stat c1) with
            | Some ss =>
              let ss' :=
                  if rs_cmd r =? SmppCommand_GENERIC_NACK then set_last_resp (set_status ss sseq STATUS_FAILED) r
                  else if rs_status r =? SmppCommandStatus_ESME_ROK then
                         let s1 := set_status ss sseq STATUS_SENT in
                         match ss_last_resp s1 with Some _ => s1 | None => set_last_resp s1 r end
                       else set_last_resp (set_status ss sseq STATUS_FAILED) r in
              with_stat c1 (dset (c_stat c1) ref ss')
            | None => c1
            end
          | None => c1
          end
        else c1 in
    (c2, Some e)
  end.

(* ---- interleaved execution of correlator calls by several tasks ---- *)
Inductive cop := OpPut (m : smsg) | OpGet (r : resp).

Record call := { k_op : cop; k_sweep : sweep; k_bound : Z (* ghost: entries that existed when the sweep began have ids below this *) }.

Record gstate := { g_corr : corr; g_calls : dict call; g_next : Z }.

Inductive cevent :=
| CBegin (task : Z) (o : cop) (now : Q)   (* the call starts; `now` is the reading of its sweep *)
| CStep (task : Z)                        (* one iteration of that task's sweep (it may then suspend in the hook) *)
| CFinish (task : Z) (now : Q).           (* sweep exhausted: the call completes *)

Inductive cout :=
| OExpired (o : swout)                    (* an entry was expired by a sweep *)
| OGot (task : Z) (r : resp) (e : option entry)  (* get() found (and removed) this entry *)
| OStored (task : Z) (e : entry).         (* put() stored this entry *)

Definition gstep (g : gstate) (ev : cevent) : gstate * list cout :=
  match ev with
  | CBegin t o now =>
    match dget t (g_calls g) with
    | Some _ => (g, [])                   (* that task is still inside a call *)
    | None =>
      match o with
      | OpPut m =>
        let c1 := put_store (g_corr g) now m (g_next g) in
        let k := {| k_op := o; k_sweep := sweep_start c1 now; k_bound := g_next g + 1 |} in
        ({| g_corr := c1; g_calls := dset (g_calls g) t k; g_next := g_next g + 1 |},
         [OStored t {| e_at := now; e_msg := m; e_id := g_next g |}])
      | OpGet r =>
        let '(c1, e) := get_pop (g_corr g) r in
        let k := {| k_op := o; k_sweep := sweep_start c1 now; k_bound := g_next g |} in
        ({| g_corr := c1; g_calls := dset (g_calls g) t k; g_next := g_next g |}, [OGot t r e])
      end
    end
  | CStep t =>
    match dget t (g_calls g) with
    | None => (g, [])
    | Some k =>
      let '(c1, sw', o) := sweep_step (g_corr g) (k_sweep k) in
      ({| g_corr := c1; g_calls := dset (g_calls g) t {| k_op := k_op k; k_sweep := sw'; k_bound := k_bound k |}; g_next := g_next g |},
       match o with Some x => [OExpired x] | None => [] end)
    end
  | CFinish t now =>
    match dget t (g_calls g) with
    | None => (g, [])
    | Some k =>
      match sw_keys (k_sweep k) with
      | _ :: _ => (g, [])                 (* the sweep is not finished yet *)
      | [] =>
        ({| g_corr := g_corr g; g_calls := ddel t (g_calls g); g_next := g_next g |}, [])
      end
    end
  end.

Fixpoint grun (g : gstate) (evs : list cevent) : gstate * list cout :=
  match evs with
  | [] => (g, [])
  | ev :: t => let '(g1, o1) := gstep g ev in let '(g2, o2) := grun g1 t in (g2, o1 ++ o2)
  end.

Definition ginit (ttl : Q) : gstate := {| g_corr := corr_init ttl; g_calls := []; g_next := 0 |}.

(* ---- serialisation ---- *)
Definition ser_cout (o : cout) : list Z :=
  match o with
  | OExpired x => [1; sm_uid (e_msg (so_entry x)); match so_call x with Some m => sm_uid m | None => -1 end]
  | OGot t r e => [2; t; match e with Some x => sm_uid (e_msg x) | None => -1 end]
  | OStored t e => [3; t; sm_uid (e_msg e)]
  end.
Definition ser_grun (ttl : Q) (evs : list cevent) : list Z :=
  let '(g, os) := grun (ginit ttl) evs in
  flat_map ser_cout os ++ [-7] ++ flat_map (fun kv => [fst kv; sm_uid (e_msg (snd kv))]) (c_store (g_corr g))
  ++ [-8] ++ map fst (c_seg (g_corr g)) ++ [-9]
  ++ flat_map (fun kv => fst kv :: flat_map (fun p => [fst p; snd p]) (ss_status (snd kv)) ++ [-1]) (c_stat (g_corr g)).

(* ---- coarse events for the correspondence harness: a resumed coroutine runs until its next
   hook call (where it suspends) or to completion ---- *)
Fixpoint gresume (fuel : nat) (g : gstate) (t : Z) (now : Q) : gstate * list cout :=
  match fuel with
  | O => (g, [])
  | S f =>
    match dget t (g_calls g) with
    | None => (g, [])
    | Some k =>
      match sw_keys (k_sweep k) with
      | [] => gstep g (CFinish t now)
      | _ :: _ =>
        let '(g1, o1) := gstep g (CStep t) in
        match o1 with
        | [OExpired x] => match so_call x with
                          | Some _ => (g1, o1)            (* suspended in hook.send_error *)
                          | None => let '(g2, o2) := gresume f g1 t now in (g2, o1 ++ o2)
                          end
        | _ => let '(g2, o2) := gresume f g1 t now in (g2, o1 ++ o2)
        end
      end
    end
  end.

Definition resume_fuel (g : gstate) (t : Z) : nat :=
  match dget t (g_calls g) with Some k => S (S (length (sw_keys (k_sweep k)))) | None => 1%nat end.

Inductive mevent := MBegin (task : Z) (o : cop) (now now2 : Q) | MResume (task : Z) (now2 : Q).

Fixpoint mrun (g : gstate) (evs : list mevent) : gstate * list cout :=
  match evs with
  | [] => (g, [])
  | MBegin t o now now2 :: rest =>
    let '(g1, o1) := gstep g (CBegin t o now) in
    let '(g2, o2) := gresume (resume_fuel g1 t) g1 t now2 in
    let '(g3, o3) := mrun g2 rest in (g3, o1 ++ o2 ++ o3)
  | MResume t now2 :: rest =>
    let '(g2, o2) := gresume (resume_fuel g t) g t now2 in
    let '(g3, o3) := mrun g2 rest in (g3, o2 ++ o3)
  end.

Definition ser_mrun (ttl : Q) (evs : list mevent) : list Z :=
  let '(g, os) := mrun (ginit ttl) evs in
  flat_map ser_cout os ++ [-7] ++ flat_map (fun kv => [fst kv; sm_uid (e_msg (snd kv))]) (c_store (g_corr g))
  ++ [-8] ++ map fst (c_seg (g_corr g)) ++ [-9]
  ++ flat_map (fun kv => fst kv :: flat_map (fun p => [fst p; snd p]) (ss_status (snd kv)) ++ [-1]) (c_stat (g_corr g)).

(* observation used by the harness: hook calls in order, then get results in call order, then the stores *)
Definition ser_mrun_obs (ttl : Q) (evs : list mevent) : list Z :=
  let '(g, os) := mrun (ginit ttl) evs in
  flat_map (fun o => match o with OExpired x => match so_call x with Some m => [sm_uid m] | None => [] end | _ => [] end) os
  ++ [-6] ++ flat_map (fun o => match o with OGot t r e => [match e with Some x => sm_uid (e_msg x) | None => -1 end] | _ => [] end) os
  ++ [-7] ++ flat_map (fun kv => [fst kv; sm_uid (e_msg (snd kv))]) (c_store (g_corr g))
  ++ [-8] ++ map fst (c_seg (g_corr g)) ++ [-9]
  ++ flat_map (fun kv => fst kv :: flat_map (fun p => [fst p; snd p]) (ss_status (snd kv)) ++ [-1]) (c_stat (g_corr g)).

(* ======================= delivery correlation (message id -> SubmitSm) =======================
   The delivery store is kept beside `corr` (string keys are modelled as integers: the harness maps
   message ids to numbers injectively). *)
Definition dstore_t := dict entry.       (* _delivery_store: msg id -> (stored_at, submit_sm) *)

Record receipt := { rc_uid : Z;          (* ghost: identity of the DeliverSm object *)
                    rc_id : Z;           (* message id it names (text or TLV) *)
                    rc_err : Z }.        (* parsed 'err' (DLR_ERROR_OTHER_ERROR when absent) *)

Definition set_last_rcpt (ss : segstat) (uid : Z) : segstat :=
  {| ss_status := ss_status ss; ss_orig := ss_orig ss; ss_last_resp := ss_last_resp ss; ss_last_rcpt := Some uid |}.

(* put_delivery(smsc_message_id, submit_sm), without the sweep *)
Definition put_delivery (d : dstore_t) (now : Q) (mid : Z) (m : smsg) (eid : Z) : dstore_t :=
  dset d mid {| e_at := now; e_msg := m; e_id := eid |}.

(* the stored SubmitSm is a part of a segmented message: 0 < total_segments <= 255 *)
Definition is_segment (m : smsg) : bool := (0 <? snd (sm_sar m)) && (snd (sm_sar m) <=? 255).

(* the receipt text may carry any integer as 'err'; values outside the range of error codes would be taken for the internal status
   markers (STATUS_SENT .. STATUS_SENDING) and are booked as DLR_ERROR_OTHER_ERROR *)
Definition receipt_code (e : Z) : Z := if (0 <=? e) && (e <? STATUS_SENT) then e else DLR_ERROR_OTHER_ERROR.

(* get_delivery(receipt), without the sweep *)
Definition get_delivery (c : corr) (d : dstore_t) (r : receipt) : corr * dstore_t * option smsg :=
  match dget (rc_id r) d with
  | None => (c, d, None)
  | Some e =>
    let m := e_msg e in
    let d' := ddel (rc_id r) d in
    match (if is_segment m then dget (sm_seq m) (c_seg c) else None) with
    | Some (ref, sseq) =>
      match dget ref (c_stat c) with
      | Some ss =>
        let code := receipt_code (rc_err r) in
        let ss1 := set_status ss sseq code in
        let ss2 := if (0 <? code) || match ss_last_rcpt ss1 with None => true | Some _ => false end
                   then set_last_rcpt ss1 (rc_uid r) else ss1 in
        (with_stat c (dset (c_stat c) ref ss2), d', Some m)
      | None => (c, d', Some m)
      end
    | None => (c, d', Some m)
    end
  end.

(* get_segmented(smpp_seq_num, remove): (SegmentStatus found, cumulated status) *)
Definition get_segmented (c : corr) (seq : Z) (remove : bool) : corr * option segstat * Z :=
  match dget seq (c_seg c) with
  | None => (c, None, 0)
  | Some (ref, _) =>
    let c1 := if remove then with_seg c (ddel seq (c_seg c)) else c in
    match dget ref (c_stat c1) with
    | None => (c1, None, 0)
    | Some ss => let '(c2, code) := cumulated c1 ref ss in (c2, Some ss, code)
    end
  end.
