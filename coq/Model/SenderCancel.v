(* The sender's CancelledError handler (esme.py _dequeue_messages): the session is torn down while the sender handles a message of
   k parts (k = 1: not segmented). Cancellation strikes while part i is being sent: either before its correlator.put() is entered
   (bound gate, rate limiter, throttle wait, sending hook, write, drain) or inside it (put records the request first, then sweeps
   expired requests, which awaits the application's send_error hook).  The rule is read off the source by the translator
   (Generated/Handled.v: sender_cancel_reports_message, sender_cancel_skips_recorded_last). *)
From Coq Require Import List Bool Arith.
Import ListNotations.
Require Import AV.Generated.Handled.

Inductive cpoint := BeforePut (i : nat) | InsidePut (i : nat).
Definition cp_index (c : cpoint) : nat := match c with BeforePut i | InsidePut i => i end.

(* self._recorded_submit_sm: the part most recently handed to correlator.put (None after the message was taken from the broker) *)
Definition recorded (c : cpoint) : option nat :=
  match c with BeforePut O => None | BeforePut (S i) => Some i | InsidePut i => Some i end.

(* the parts the correlator holds when the handler runs: 0 .. stored_parts - 1 *)
Definition stored_parts (c : cpoint) : nat := match c with BeforePut i => i | InsidePut i => S i end.

(* does the handler call send_error(message, ConnectionError)? *)
Definition handler_reports (k : nat) (c : cpoint) : bool :=
  sender_cancel_reports_message
  && (if sender_cancel_skips_recorded_last
      then match recorded c with Some j => negb (Nat.eqb j (k - 1)) | None => true end
      else true).

(* for the correspondence check: (reports?, parts stored) *)
Definition ser_cancel (k : nat) (c : cpoint) : list nat := [if handler_reports k c then 1 else 0; stored_parts c].
