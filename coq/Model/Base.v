(* Common modelling conventions: results with Python exception classes, Python-dict lookups. *)
From Coq Require Import ZArith List Bool.
Import ListNotations.
Open Scope Z_scope.

(* An exception class is its index in the generated universe (AV.Generated.ExnOrder). *)
Definition exn := Z.

Inductive res (A : Type) : Type :=
| Ok (a : A)
| Err (e : exn).
Arguments Ok {A} a.
Arguments Err {A} e.

Definition rbind {A B} (r : res A) (f : A -> res B) : res B :=
  match r with Ok a => f a | Err e => Err e end.
Notation "'do' x <- r ; k" := (rbind r (fun x => k)) (at level 200, x pattern, r at level 100, k at level 200).

Definition rmap {A B} (f : A -> B) (r : res A) : res B :=
  match r with Ok a => Ok (f a) | Err e => Err e end.

(* Python dict with int keys as an association list (first match = the dict entry, keys are
   unique after literal de-duplication). *)
Fixpoint lookup (k : Z) (m : list (Z * Z)) : option Z :=
  match m with
  | [] => None
  | (k', v) :: m' => if Z.eqb k k' then Some v else lookup k m'
  end.

Lemma lookup_nil k : lookup k [] = None.
Proof. reflexivity. Qed.
Lemma lookup_cons k k' v m : lookup k ((k', v) :: m) = if Z.eqb k k' then Some v else lookup k m.
Proof. reflexivity. Qed.
Arguments lookup : simpl never.

Definition mem (k : Z) (l : list Z) : bool := existsb (Z.eqb k) l.

(* {v: k for k, v in m.items()} : later entries win.  lookup in the reversed swapped list
   finds the LAST entry of m whose value is the key, which is what the comprehension keeps. *)
Definition invert (m : list (Z * Z)) : list (Z * Z) := rev (map (fun p => (snd p, fst p)) m).

Definition opt_eqb (a b : option Z) : bool :=
  match a, b with
  | None, None => true
  | Some x, Some y => Z.eqb x y
  | _, _ => false
  end.

Fixpoint list_eqb (a b : list Z) : bool :=
  match a, b with
  | [], [] => true
  | x :: a', y :: b' => Z.eqb x y && list_eqb a' b'
  | _, _ => false
  end.

(* serialisation of results for the correspondence harness: Ok l -> 0 :: l ; Err e -> [1; e] *)
Definition ser_res (r : res (list Z)) : list Z :=
  match r with Ok l => 0 :: l | Err e => [1; e] end.
