(* Executable model of the decision logic of ESME._handle_response (esme.py:633-711) and of the
   receipt branch of ESME._handle_request (esme.py:768-836), on already parsed messages, together with
   the SimpleCorrelator operations they call. The expiry sweeps inside those operations are left out
   here (they are the subject of Model/Correlator.v's interleaved semantics and of C14). *)
From Coq Require Import ZArith QArith List Bool.
Import ListNotations.
Require Import AV.Generated.ExnOrder AV.Generated.SmppConsts AV.Generated.Handled
               AV.Model.Base AV.Model.PyDict AV.Model.Limiter AV.Model.Correlator AV.Model.Seq.
Open Scope Z_scope.

Record hstate := { h_corr : corr; h_deliv : dstore_t; h_next : Z;
                   h_thr : Z; h_nonthr : Z;       (* throttle handler call counters *)
                   h_rlog : dict Z }.             (* response object uid -> log ghost written onto it (log_id/extra_data) *)

Definition hinit : hstate := {| h_corr := corr_init 15; h_deliv := []; h_next := 0; h_thr := 0; h_nonthr := 0; h_rlog := [] |}.

(* what the received hook gets for one inbound PDU *)
Inductive hout :=
| HRaw                                   (* received(None, pdu): placeholder for an intermediate segment, or unusable PDU *)
| HResp (uid : Z) (log : Z) (cmd status : Z)      (* received(response object, ...) with this log ghost (0 = empty log_id) *)
| HReceipt (uid : Z) (log : Z)           (* received(DeliverSm receipt object uid, ...) *)
| HSendError (log : Z)                   (* send_error(original SubmitSm with this log ghost, TimeoutError) *)
| HCrash (e : exn).

Inductive hevent :=
| HPut (m : smsg)                                   (* correlator.put(m) after a successful write *)
| HResponse (r : resp) (mid : Z)                    (* a parsed response PDU; mid = message_id of a submit_sm_resp *)
| HRcpt (r : receipt) (has_id : bool)               (* a parsed delivery receipt; has_id = an id was found in text or TLV *)
| HExpire (seq : Z)                                 (* the sweep finds the stored request with this sequence number too old *)
| HResponseX (r : resp) (mid : Z) (exps : list Z).  (* a response during whose correlation these requests time out *)

Definition with_corr (s : hstate) (c : corr) : hstate :=
  {| h_corr := c; h_deliv := h_deliv s; h_next := h_next s; h_thr := h_thr s; h_nonthr := h_nonthr s; h_rlog := h_rlog s |}.

Definition handle_response (s : hstate) (r : resp) (mid : Z) : hstate * list hout :=
  let cmd := rs_cmd r in
  if negb (mem cmd handled_response_commands) then (s, [HRaw])
  else
    let oc := if cmd =? SmppCommand_GENERIC_NACK then Ok None
              else match lookup cmd response_command_map with Some c => Ok (Some c) | None => Err EXN_KeyError end in
    match oc with
    | Err e => (s, [HCrash e])
    | Ok oc =>
      let '(c1, oe) := get_pop (h_corr s) r in
      let s1 := with_corr s c1 in
      match oe with
      | None => (s1, [HResp (rs_uid r) 0 cmd (rs_status r)])
      | Some e =>
        let m := e_msg e in
        if match oc with Some c => negb (sm_cmd m =? c) | None => false end then (s1, [HRaw])
        else if ((cmd =? SmppCommand_SUBMIT_SM_RESP) || (cmd =? SmppCommand_GENERIC_NACK)) && (sm_cmd m =? SmppCommand_SUBMIT_SM) then
          let rl := dset (h_rlog s) (rs_uid r) (sm_log m) in
          let s2 := if mem (rs_status r) throttled_statuses
                    then {| h_corr := c1; h_deliv := h_deliv s; h_next := h_next s; h_thr := h_thr s + 1; h_nonthr := h_nonthr s; h_rlog := rl |}
                    else {| h_corr := c1; h_deliv := h_deliv s; h_next := h_next s; h_thr := h_thr s; h_nonthr := h_nonthr s + 1; h_rlog := rl |} in
          let ok := (cmd =? SmppCommand_SUBMIT_SM_RESP) && (rs_status r =? SmppCommandStatus_ESME_ROK) in
          let d1 := if ok then put_delivery (h_deliv s2) 0%Q mid m (h_next s2) else h_deliv s2 in
          (* the segmentation check is made for every response to a SubmitSm, accepted or not *)
          let '(c2, oss, code) := get_segmented c1 (rs_seq r) false in
          let s3 := {| h_corr := c2; h_deliv := d1; h_next := (if ok then h_next s2 + 1 else h_next s2); h_thr := h_thr s2; h_nonthr := h_nonthr s2; h_rlog := rl |} in
          match oss with
          | Some ss =>
            if code =? STATUS_SENDING then (s3, [HRaw])
            else if code =? STATUS_EXPIRED then (s3, [HSendError (sm_log (ss_orig ss)); HRaw])
            else match ss_last_resp ss with
                 | Some lr => (s3, [HResp (rs_uid lr) (match dget (rs_uid lr) rl with Some l => l | None => 0 end) (rs_cmd lr) (rs_status lr)])
                 | None => (s3, [HResp (rs_uid r) (sm_log m) cmd (rs_status r)])
                 end
          | None =>
            (* a segment whose status cell is gone: its message already got its outcome (fix d022cf6) *)
            if 0 <? snd (sm_sar m) then (s3, [HRaw]) else (s3, [HResp (rs_uid r) (sm_log m) cmd (rs_status r)])
          end
        else (s1, [HResp (rs_uid r) 0 cmd (rs_status r)])
      end
    end.

(* one iteration of the expiry sweep for the request stored under this sequence number *)
Definition expire_one (s : hstate) (sq : Z) : hstate * list hout :=
  match dget sq (c_store (h_corr s)) with
  | None => (s, [])
  | Some e =>
    let c1 := with_store (h_corr s) (ddel sq (c_store (h_corr s))) in
    let '(c2, call) := expired c1 (e_msg e) in
    (with_corr s c2, match call with Some m => [HSendError (sm_log m)] | None => [] end)
  end.
Fixpoint expire_all (exps : list Z) (s : hstate) : hstate * list hout :=
  match exps with
  | [] => (s, [])
  | sq :: t => let '(s1, o1) := expire_one s sq in let '(s2, o2) := expire_all t s1 in (s2, o1 ++ o2)
  end.

(* the same with the sweep that correlator.get() runs before it returns: the requests in exps have just become too old *)
Definition handle_response_x (exps : list Z) (s : hstate) (r : resp) (mid : Z) : hstate * list hout :=
  let cmd := rs_cmd r in
  if negb (mem cmd handled_response_commands) then (s, [HRaw])
  else
    let oc := if cmd =? SmppCommand_GENERIC_NACK then Ok None
              else match lookup cmd response_command_map with Some c => Ok (Some c) | None => Err EXN_KeyError end in
    match oc with
    | Err e => (s, [HCrash e])
    | Ok oc =>
      let '(c0, oe) := get_pop (h_corr s) r in
      let ex := expire_all exps (with_corr s c0) in
      let c1 := h_corr (fst ex) in
      let eo := snd ex in
      let s1 := with_corr s c1 in
      match oe with
      | None => (s1, eo ++ [HResp (rs_uid r) 0 cmd (rs_status r)])
      | Some e =>
        let m := e_msg e in
        if match oc with Some c => negb (sm_cmd m =? c) | None => false end then (s1, eo ++ [HRaw])
        else if ((cmd =? SmppCommand_SUBMIT_SM_RESP) || (cmd =? SmppCommand_GENERIC_NACK)) && (sm_cmd m =? SmppCommand_SUBMIT_SM) then
          let rl := dset (h_rlog s) (rs_uid r) (sm_log m) in
          let s2 := if mem (rs_status r) throttled_statuses
                    then {| h_corr := c1; h_deliv := h_deliv s; h_next := h_next s; h_thr := h_thr s + 1; h_nonthr := h_nonthr s; h_rlog := rl |}
                    else {| h_corr := c1; h_deliv := h_deliv s; h_next := h_next s; h_thr := h_thr s; h_nonthr := h_nonthr s + 1; h_rlog := rl |} in
          let ok := (cmd =? SmppCommand_SUBMIT_SM_RESP) && (rs_status r =? SmppCommandStatus_ESME_ROK) in
          let d1 := if ok then put_delivery (h_deliv s2) 0%Q mid m (h_next s2) else h_deliv s2 in
          (* the segmentation check is made for every response to a SubmitSm, accepted or not *)
          let '(c2, oss, code) := get_segmented c1 (rs_seq r) false in
          let s3 := {| h_corr := c2; h_deliv := d1; h_next := (if ok then h_next s2 + 1 else h_next s2); h_thr := h_thr s2; h_nonthr := h_nonthr s2; h_rlog := rl |} in
          match oss with
          | Some ss =>
            if code =? STATUS_SENDING then (s3, eo ++ [HRaw])
            else if code =? STATUS_EXPIRED then (s3, eo ++ [HSendError (sm_log (ss_orig ss)); HRaw])
            else match ss_last_resp ss with
                 | Some lr => (s3, eo ++ [HResp (rs_uid lr) (match dget (rs_uid lr) rl with Some l => l | None => 0 end) (rs_cmd lr) (rs_status lr)])
                 | None => (s3, eo ++ [HResp (rs_uid r) (sm_log m) cmd (rs_status r)])
                 end
          | None =>
            (* a segment whose status cell is gone: its message already got its outcome (fix d022cf6) *)
            if 0 <? snd (sm_sar m) then (s3, eo ++ [HRaw]) else (s3, eo ++ [HResp (rs_uid r) (sm_log m) cmd (rs_status r)])
          end
        else (s1, eo ++ [HResp (rs_uid r) 0 cmd (rs_status r)])
      end
    end.

Definition handle_receipt (s : hstate) (r : receipt) (has_id : bool) : hstate * list hout :=
  if negb has_id then (s, [HReceipt (rc_uid r) 0])
  else
    let '(c1, d1, om) := get_delivery (h_corr s) (h_deliv s) r in
    let s1 := {| h_corr := c1; h_deliv := d1; h_next := h_next s; h_thr := h_thr s; h_nonthr := h_nonthr s; h_rlog := h_rlog s |} in
    match om with
    | None => (s1, [HReceipt (rc_uid r) 0])
    | Some m =>
      let '(c2, oss, code) := if is_segment m then get_segmented c1 (sm_seq m) true else (c1, None, 0) in
      let s2 := {| h_corr := c2; h_deliv := d1; h_next := h_next s; h_thr := h_thr s; h_nonthr := h_nonthr s; h_rlog := h_rlog s |} in
      match oss with
      | Some ss =>
        if (code =? STATUS_SENDING) || (code =? STATUS_SENT) then (s2, [HRaw])
        else match ss_last_rcpt ss with
             | Some u => (s2, [HReceipt u (sm_log m)])
             | None => (s2, [HReceipt (rc_uid r) (sm_log m)])
             end
      | None => (s2, [HReceipt (rc_uid r) (sm_log m)])
      end
    end.

Definition hstep (s : hstate) (ev : hevent) : hstate * list hout :=
  match ev with
  | HPut m => ({| h_corr := put_store (h_corr s) 0%Q m (h_next s); h_deliv := h_deliv s; h_next := h_next s + 1;
                  h_thr := h_thr s; h_nonthr := h_nonthr s; h_rlog := h_rlog s |}, [])
  | HResponse r mid => handle_response s r mid
  | HRcpt r has_id => handle_receipt s r has_id
  | HExpire sq => expire_one s sq
  | HResponseX r mid exps => handle_response_x exps s r mid
  end.

Fixpoint hrun (s : hstate) (evs : list hevent) : hstate * list hout :=
  match evs with
  | [] => (s, [])
  | ev :: t => let '(s1, o1) := hstep s ev in let '(s2, o2) := hrun s1 t in (s2, o1 ++ o2)
  end.

Definition ser_hout (o : hout) : list Z :=
  match o with
  | HRaw => [0]
  | HResp uid log cmd st => [1; uid; log; cmd; st]
  | HSendError log => [4; log]
  | HReceipt uid log => [2; uid; log]
  | HCrash e => [3; e]
  end.

Definition ser_hrun (evs : list hevent) : list Z :=
  let '(s, os) := hrun hinit evs in
  flat_map ser_hout os ++ [-5; h_thr s; h_nonthr s; -7]
  ++ flat_map (fun kv => [fst kv; sm_uid (e_msg (snd kv))]) (c_store (h_corr s))
  ++ [-8] ++ map fst (c_seg (h_corr s)) ++ [-9]
  ++ flat_map (fun kv => fst kv :: flat_map (fun p => [fst p; snd p]) (ss_status (snd kv)) ++ [-1]) (c_stat (h_corr s))
  ++ [-10] ++ flat_map (fun kv => [fst kv; sm_uid (e_msg (snd kv))]) (h_deliv s).
