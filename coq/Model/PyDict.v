(* Python dict with integer keys as an insertion-ordered association list. *)
From Coq Require Import ZArith List Bool.
Import ListNotations.
Open Scope Z_scope.

Section Dict.
  Context {V : Type}.
  Definition dict := list (Z * V).

  Fixpoint dget (k : Z) (d : dict) : option V :=
    match d with [] => None | (k', v) :: t => if k =? k' then Some v else dget k t end.

  (* d[k] = v : an existing key keeps its position *)
  Fixpoint dset (d : dict) (k : Z) (v : V) : dict :=
    match d with
    | [] => [(k, v)]
    | (k', v') :: t => if k =? k' then (k, v) :: t else (k', v') :: dset t k v
    end.

  Fixpoint ddel (k : Z) (d : dict) : dict :=
    match d with [] => [] | (k', v) :: t => if k =? k' then t else (k', v) :: ddel k t end.

  Definition dmem (k : Z) (d : dict) : bool := match dget k d with Some _ => true | None => false end.
  Definition dkeys (d : dict) : list Z := map fst d.
End Dict.
Arguments dict : clear implicits.
