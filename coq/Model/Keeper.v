(* _connection_keeper of esme.py as a timed automaton (times in milliseconds since the session was bound).
   Inbound traffic: any PDU the receiver reads sets the data-received event.  Each probe (enquire_link) may be answered
   after a delay; answers and unsolicited traffic are both just arrivals. *)
From Coq Require Import ZArith List Bool.
Import ListNotations.
Open Scope Z_scope.

Fixpoint insert (x : Z) (l : list Z) : list Z :=
  match l with [] => [x] | y :: t => if x <=? y then x :: l else y :: insert x t end.

(* first arrival at or after `from`; earlier ones are consumed (the event was already set and cleared) *)
Fixpoint drop_before (from : Z) (l : list Z) : list Z :=
  match l with [] => [] | y :: t => if y <? from then drop_before from t else l end.

Record kstate := { k_probes : list Z; k_drop : option Z }.

(* now: the time the keeper (re)started its interval; arrivals: sorted arrival times not yet seen;
   delays: answer delay for each further probe (None = never answered) *)
Fixpoint keeper (fuel : nat) (interval timeout : Z) (now : Z) (arrivals : list Z) (delays : list (option Z)) (horizon : Z)
  : list Z * option Z :=
  match fuel with
  | O => ([], None)
  | S f =>
    if horizon <=? now then ([], None)
    else
      let arrivals := drop_before now arrivals in
      match arrivals with
      | a :: rest =>
        if a <? now + interval
        then keeper f interval timeout a rest delays horizon            (* traffic before the interval ran out: start over *)
        else probe f interval timeout (now + interval) arrivals delays horizon
      | [] => probe f interval timeout (now + interval) [] delays horizon
      end
  end
with probe (fuel : nat) (interval timeout : Z) (p : Z) (arrivals : list Z) (delays : list (option Z)) (horizon : Z)
  : list Z * option Z :=
  match fuel with
  | O => ([], None)
  | S f =>
    if horizon <=? p then ([], None)
    else
      (* enquire_link written at p; its answer, if any, becomes an arrival *)
      let '(arrivals, delays') := match delays with
                                  | Some d :: t => (insert (p + d) arrivals, t)
                                  | None :: t => (arrivals, t)
                                  | [] => (arrivals, [])
                                  end in
      match arrivals with
      | a :: rest =>
        if a <? p + timeout
        then let '(ps, dr) := keeper f interval timeout a rest delays' horizon in (p :: ps, dr)
        else ([p], if p + timeout <? horizon then Some (p + timeout) else None)
      | [] => ([p], if p + timeout <? horizon then Some (p + timeout) else None)
      end
  end.

Definition run_keeper (interval timeout : Z) (arrivals : list Z) (delays : list (option Z)) (horizon : Z) : list Z * option Z :=
  keeper (2 * (length arrivals + length delays) + Z.to_nat (horizon / Z.max 1 interval) + 4) interval timeout 0 arrivals delays horizon.

Definition ser_keeper (interval timeout : Z) (arrivals : list Z) (delays : list (option Z)) (horizon : Z) : list Z :=
  let '(ps, dr) := run_keeper interval timeout arrivals delays horizon in
  Z.of_nat (length ps) :: ps ++ match dr with None => [0] | Some t => [1; t] end.
