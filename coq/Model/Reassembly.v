(* Executable model of SimpleCorrelator.put_delivery_segmented (correlator.py, after fix 00c3b4e:
   segments are joined in numeric order of their sequence numbers). *)
From Coq Require Import ZArith QArith List Bool.
Import ListNotations.
Require Import AV.Generated.ExnOrder AV.Model.Base AV.Model.PyDict.
Open Scope Z_scope.

Definition text := list Z.

(* _delivery_segment_store: ref -> (stored_at, {segment seq -> text}) *)
Record dsegs := { ds_at : Q; ds_parts : dict text }.
Definition dstore := dict dsegs.

(* sorted(segments.items(), key=lambda item: int(item[0])) : insertion sort, stable *)
Fixpoint insert_by_key (kv : Z * text) (l : list (Z * text)) : list (Z * text) :=
  match l with
  | [] => [kv]
  | x :: t => if fst kv <? fst x then kv :: x :: t else x :: insert_by_key kv t
  end.
Fixpoint sort_by_key (l : list (Z * text)) : list (Z * text) :=
  match l with [] => [] | x :: t => insert_by_key x (sort_by_key t) end.

Definition join_parts (parts : dict text) : text := concat (map snd (sort_by_key parts)).

(* put_delivery_segmented: returns the store and the complete text when this segment completes the
   message (pop(ref, None): a message whose total is 1 completes at once and was never stored). *)
Definition put_delivery_segmented (st : dstore) (now : Q) (ref seq total : Z) (t : text) : res (dstore * option text) :=
  let parts := match dget ref st with
               | Some d => dset (ds_parts d) seq t
               | None => [(seq, t)]
               end in
  if Z.of_nat (length parts) =? total then
    match dget ref st with
    | Some _ => Ok (ddel ref st, Some (join_parts parts))
    | None => Ok (st, Some (join_parts parts))
    end
  else Ok (dset st ref {| ds_at := now; ds_parts := parts |}, None).

(* a stream of segments: (ref, seq, total, text) in arrival order; outputs per arrival *)
Fixpoint reassemble (st : dstore) (arrivals : list (Z * Z * Z * text)) : list (res (option text)) :=
  match arrivals with
  | [] => []
  | (ref, seq, total, t) :: rest =>
    match put_delivery_segmented st 0%Q ref seq total t with
    | Ok (st', o) => Ok o :: reassemble st' rest
    | Err e => Err e :: reassemble st rest
    end
  end.

Definition ser_reassemble (arrivals : list (Z * Z * Z * text)) : list Z :=
  flat_map (fun r => match r with
                     | Ok None => [0]
                     | Ok (Some t) => 1 :: Z.of_nat (length t) :: t
                     | Err e => [2; e]
                     end) (reassemble [] arrivals).
