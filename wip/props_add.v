
(* the sender torn down in the middle of a message of k parts (Model/SenderCancel.v; the handler's rule is read off esme.py by the
   translator): wherever the cancellation strikes - before or inside correlator.put() of any part -
   (a) if the handler reports the message, then whatever the SMSC answers to the parts already recorded and whichever of them time
       out, in any order, the correlator never produces an outcome for it: the handler's report is the only one;
   (b) if the handler keeps quiet, every part is recorded, so C01_segmented_outcome applies to the complete message: exactly one
       outcome once every part is answered or timed out. *)
Theorem C01_cancelled_sender :
  forall r log k sq uid c gs,
  (2 <= k <= 255)%nat ->
  (forall i j, (i < k)%nat -> (j < k)%nat -> sq i = sq j -> i = j) ->
  (cp_index c < k)%nat ->
  (handler_reports k c = true ->
     ovalid k sq (fun _ => QNot) None gs -> (forall i, In (OPut i) gs -> (i < stored_parts c)%nat) ->
     filter is_outcome (concat (hrun_each hinit (map (oconc r log k sq uid) gs))) = [])
  /\ (handler_reports k c = false -> stored_parts c = k).
Proof. exact cancelled_sender. Qed.

(* a message that is not segmented: reported by the handler exactly when the correlator does not hold it *)
Theorem C01_cancelled_plain :
  forall c, cp_index c = 0%nat ->
  (handler_reports 1 c = true /\ stored_parts c = 0%nat) \/ (handler_reports 1 c = false /\ stored_parts c = 1%nat).
Proof. exact cancelled_plain. Qed.
