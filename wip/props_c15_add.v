
(* every PDU the receiver has read (whose parsing does not end in an exception outside the model, cf. C05) is handed to the received
   hook exactly once - also when the connection fails at the moment its answer is written (any of the writes of its handling may
   fail, independently): Model/RecvActions.v, whose order facts the translator reads off _receive_data / _handle_request *)
Theorem C15_handed_over_exactly_once :
  forall default pdu h ok,
  (forall e, rx_out (react default pdu h) <> ORaise e) ->
  hook_calls (actions (react default pdu h)) ok 0 = 1%nat.
Proof. exact handed_over_exactly_once. Qed.

(* the answer to a parsed request (deliver_sm, enquire_link, unbind) is written only after the received hook returned *)
Theorem C15_answer_after_hook :
  forall default pdu h,
  rx_parsed (react default pdu h) = true -> (forall e, rx_out (react default pdu h) <> ORaise e) ->
  hook_precedes_writes (actions (react default pdu h)) = true.
Proof. exact parsed_answered_after_hook. Qed.
